#!/bin/bash
# usage: ingest_seed.sh <worktree> <seed-id> <demo test regex> [demo package, default ./internal/etoe/]
# Confirms an independently written breaking change in its scratch worktree (demo fails with the change, passes without,
# existing suite passes with the change and the demo file moved aside) and stores it as /verif/seeded/<id>/.
set -u
WT=$1; ID=$2; RX=$3; PKG=${4:-./internal/etoe/}; TAGS=${TAGS:-}   # TAGS="-tags verif" for demos that use the hook constructors
export GOFLAGS=-mod=mod GOPROXY=off
D=/verif/seeded/$ID; mkdir -p $D
cp -r $WT/SEED/patch.diff $WT/SEED/meta.json $D/ ; rm -rf $D/demo; cp -r $WT/SEED/demo $D/demo
cd $WT
git apply -R --check SEED/patch.diff 2>/dev/null || { echo "patch is not applied in worktree; applying"; git apply SEED/patch.diff || exit 2; }
for f in SEED/demo/*_test.go; do d=$(find . -name "$(basename $f)" -not -path './SEED/*' | head -1); [ -n "$d" ] || cp $f ${PKG}; done
go test $TAGS -vet=off -count=1 -run "$RX" $PKG > /tmp/ingest.$ID.with.log 2>&1; with=$?
git apply -R SEED/patch.diff
go test $TAGS -vet=off -count=1 -run "$RX" $PKG > /tmp/ingest.$ID.without.log 2>&1; without=$?
git apply SEED/patch.diff
# existing suite with the change, demo files moved aside
mkdir -p /tmp/ingest.$ID.aside; find . -name 'seeded_*_test.go' -not -path './SEED/*' -exec mv {} /tmp/ingest.$ID.aside/ \; ; mv SEED /tmp/ingest.$ID.aside/SEED
go test -vet=off -count=1 ./... > /tmp/ingest.$ID.suite.log 2>&1; suite=$?
mv /tmp/ingest.$ID.aside/SEED SEED
rm -rf /tmp/ingest.$ID.aside
python3 - "$D/meta.json" $with $without $suite "$RX" "$PKG" "$TAGS" <<'PY'
import json,sys
p,w,wo,su,rx,pkg,tags=sys.argv[1:8]
m=json.load(open(p))
m['confirmed_by_us']={'demo_exit_with_change':int(w),'demo_exit_without_change':int(wo),'suite_exit_with_change':int(su),
  'demo_command':f"go test {tags} -vet=off -count=1 -run '{rx}' {pkg}".replace("  "," "), 'suite_command':'go test -vet=off -count=1 ./... (demo files moved aside)'}
json.dump(m,open(p,'w'),indent=1)
print(m['confirmed_by_us'])
PY
