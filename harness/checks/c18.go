package checks

// C18: clones are deep, definition-preserving and resubmittable (DESIGN §C18).
// Uses the reflection helpers of c17.go (fingerprintOf, safely, rwTimeType).

import (
	"encoding/json"
	"fmt"
	"math/rand"
	"reflect"
	"sort"
	"strings"
	"time"

	"github.com/element-of-surprise/coercion"
	"github.com/element-of-surprise/coercion/plugins"
	plugreg "github.com/element-of-surprise/coercion/plugins/registry"
	"github.com/element-of-surprise/coercion/workflow"
	"github.com/element-of-surprise/coercion/workflow/context"
	"github.com/element-of-surprise/coercion/workflow/utils/clone"
	"github.com/google/uuid"
	"github.com/gostdlib/base/retry/exponential"

	"verifharness/internal/ev"
	"verifharness/internal/gen"
	"verifharness/internal/plug"
	"verifharness/internal/store"
)

// c18KeyIsDefinition: the statement lists the definition fields (names, descriptions, plugin, request,
// timeout, retries, delays, concurrency, tolerance, group, meta, order) and does not mention the user-supplied
// Key. clone.* drops Key; this is counted (info_key_dropped) and only reported when this switch is on.
const c18KeyIsDefinition = false

// ---- request/response types with secure-tagged fields (make WithKeepSecrets observable)

type C18Inner struct {
	Note string
	Pass []byte `coerce:"secure"`
	Tags []string
}

type C18Req struct {
	Public string
	Token  string `coerce:"secure"`
	List   []string
	M      map[string]*C18Inner
	Inner  *C18Inner
	Many   []C18Inner
}

type C18Resp struct {
	Out     string
	Session string `coerce:"secure"`
	Inner   *C18Inner
}

func c18BlankInner(in *C18Inner) *C18Inner {
	if in == nil {
		return nil
	}
	return &C18Inner{Note: in.Note, Tags: in.Tags}
}

// c18Blank returns a copy of a C18 request/response with every secure-tagged field zeroed; ok=false for other types.
func c18Blank(v any) (out any, ok bool) {
	req := func(q *C18Req) *C18Req {
		if q == nil {
			return nil
		}
		n := &C18Req{Public: q.Public, List: q.List, Inner: c18BlankInner(q.Inner)}
		if q.M != nil {
			n.M = map[string]*C18Inner{}
			for k, x := range q.M {
				n.M[k] = c18BlankInner(x)
			}
		}
		for i := range q.Many {
			n.Many = append(n.Many, *c18BlankInner(&q.Many[i]))
		}
		return n
	}
	resp := func(q *C18Resp) *C18Resp {
		if q == nil {
			return nil
		}
		return &C18Resp{Out: q.Out, Inner: c18BlankInner(q.Inner)}
	}
	switch x := v.(type) {
	case C18Req:
		return *req(&x), true
	case *C18Req:
		return req(x), true
	case C18Resp:
		return *resp(&x), true
	case *C18Resp:
		return resp(x), true
	}
	return nil, false
}

func c18Typed(v any) string {
	b, _ := json.Marshal(v)
	return fmt.Sprintf("%T|%s", v, b)
}

const (
	c18SecV = "c18secv" // C18Req / C18Resp by value
	c18SecP = "c18secp" // by pointer
	c18SecC = "c18secc" // check flavour, by value
)

type c18Plug struct {
	name      string
	check     bool
	req, resp func() any
}

func (p *c18Plug) Name() string { return p.name }
func (p *c18Plug) Execute(ctx context.Context, req any) (any, *plugins.Error) {
	return p.resp(), nil
}
func (p *c18Plug) ValidateReq(req any) error {
	if reflect.TypeOf(req) != reflect.TypeOf(p.req()) {
		return fmt.Errorf("plugin %s wants %T, got %T", p.name, p.req(), req)
	}
	return nil
}
func (p *c18Plug) Request() any  { return p.req() }
func (p *c18Plug) Response() any { return p.resp() }
func (p *c18Plug) IsCheck() bool { return p.check }
func (p *c18Plug) RetryPolicy() exponential.Policy {
	return exponential.Policy{InitialInterval: time.Millisecond, Multiplier: 1.1, MaxInterval: 2 * time.Millisecond}
}
func (p *c18Plug) Init() error { return nil }

func c18Registry() *plugreg.Register {
	reg := store.Registry(plug.NewLog())
	reg.MustRegister(&c18Plug{name: c18SecV, req: func() any { return C18Req{} }, resp: func() any { return C18Resp{} }})
	reg.MustRegister(&c18Plug{name: c18SecP, req: func() any { return &C18Req{} }, resp: func() any { return &C18Resp{} }})
	reg.MustRegister(&c18Plug{name: c18SecC, check: true, req: func() any { return C18Req{} }, resp: func() any { return C18Resp{} }})
	return reg
}

func c18RandInner(r *rand.Rand, n *int) *C18Inner {
	*n++
	in := &C18Inner{Note: fmt.Sprintf("note-%d", *n), Pass: []byte(fmt.Sprintf("SECRET18-pass-%d", *n))}
	for i := 0; i < r.Intn(3); i++ {
		in.Tags = append(in.Tags, fmt.Sprintf("tag%d", i))
	}
	return in
}

func c18RandReq(r *rand.Rand, n *int) *C18Req {
	*n++
	q := &C18Req{Public: fmt.Sprintf("public-%d", *n), Token: fmt.Sprintf("SECRET18-token-%d", *n)}
	for i := 0; i < r.Intn(3); i++ {
		q.List = append(q.List, fmt.Sprintf("l%d", i))
	}
	if r.Intn(2) == 0 {
		q.M = map[string]*C18Inner{"a": c18RandInner(r, n)}
		if r.Intn(2) == 0 {
			q.M["b"] = nil
		}
	}
	if r.Intn(2) == 0 {
		q.Inner = c18RandInner(r, n)
	}
	for i := 0; i < r.Intn(3); i++ {
		q.Many = append(q.Many, *c18RandInner(r, n))
	}
	return q
}

func c18RandResp(r *rand.Rand, n *int) *C18Resp {
	*n++
	p := &C18Resp{Out: fmt.Sprintf("out-%d", *n), Session: fmt.Sprintf("SECRET18-session-%d", *n)}
	if r.Intn(2) == 0 {
		p.Inner = c18RandInner(r, n)
	}
	return p
}

// ---- input plans

var c18States = []string{"fresh", "stored", "executed", "running"}

func c18Actions(p *workflow.Plan) (seq, chk []*workflow.Action) {
	for _, lo := range liveObjects(p) {
		switch lo.kind {
		case "seq":
			seq = append(seq, lo.seq.Actions...)
		case "checks":
			chk = append(chk, lo.checks.Actions...)
		}
	}
	return
}

// c18Definition makes the definition submittable (timeouts) and plants the secure-tagged request types.
func c18Definition(r *rand.Rand, p *workflow.Plan) {
	n := 0
	seq, chk := c18Actions(p)
	for _, a := range append(append([]*workflow.Action{}, seq...), chk...) {
		if a.Timeout != 0 && a.Timeout < 5*time.Second {
			a.Timeout = 5 * time.Second
		}
	}
	setResp := func(a *workflow.Action, ptr bool) {
		for _, at := range a.Attempts {
			if at.Resp == nil {
				continue
			}
			if ptr {
				at.Resp = c18RandResp(r, &n)
			} else {
				at.Resp = *c18RandResp(r, &n)
			}
		}
	}
	for _, a := range seq {
		switch r.Intn(5) {
		case 0:
			a.Plugin, a.Req = c18SecV, *c18RandReq(r, &n)
			setResp(a, false)
		case 1:
			a.Plugin, a.Req = c18SecP, c18RandReq(r, &n)
			setResp(a, true)
		}
	}
	for _, a := range chk {
		if r.Intn(3) == 0 {
			a.Plugin, a.Req = c18SecC, *c18RandReq(r, &n)
			setResp(a, false)
		}
	}
}

func c18Strip(p *workflow.Plan) {
	p.ID, p.State, p.SubmitTime, p.Reason = uuid.Nil, nil, time.Time{}, workflow.FRUnknown
	for _, lo := range liveObjects(p) {
		switch lo.kind {
		case "block":
			lo.block.ID, lo.block.State = uuid.Nil, nil
		case "checks":
			lo.checks.ID, lo.checks.State = uuid.Nil, nil
		case "seq":
			lo.seq.ID, lo.seq.State = uuid.Nil, nil
		case "action":
			lo.action.ID, lo.action.State, lo.action.Attempts = uuid.Nil, nil, nil
		}
	}
}

// c18Running shapes an executed-looking plan into a consistent snapshot of a plan in flight: a prefix of
// the blocks is Completed, one is Running (with Running sequences and actions that have attempts but no
// final state), the rest has not started.
func c18Running(r *rand.Rand, p *workflow.Plan) {
	t0 := time.Unix(1700001000, 0).UTC()
	set := func(s *workflow.State, st workflow.Status) {
		s.Status = st
		switch st {
		case workflow.NotStarted:
			s.Start, s.End = time.Time{}, time.Time{}
		case workflow.Running:
			s.Start, s.End = t0, time.Time{}
		default:
			s.Start, s.End = t0, t0.Add(time.Minute)
		}
	}
	checks := func(c *workflow.Checks, st workflow.Status) {
		if c == nil {
			return
		}
		set(c.State, st)
		for _, a := range c.Actions {
			set(a.State, st)
			if st == workflow.NotStarted {
				a.Attempts = nil
			}
		}
	}
	set(p.State, workflow.Running)
	p.Reason = workflow.FRUnknown
	checks(p.BypassChecks, workflow.Failed) // a failed bypass means the plan runs
	checks(p.PreChecks, workflow.Completed)
	checks(p.ContChecks, workflow.Running)
	checks(p.PostChecks, workflow.NotStarted)
	checks(p.DeferredChecks, workflow.NotStarted)
	cur := r.Intn(len(p.Blocks))
	for bi, b := range p.Blocks {
		st := workflow.NotStarted
		switch {
		case bi < cur:
			st = workflow.Completed
		case bi == cur:
			st = workflow.Running
		}
		set(b.State, st)
		pre, post := st, workflow.NotStarted
		if st == workflow.Running {
			pre = workflow.Completed
		}
		if st == workflow.Completed {
			post = workflow.Completed
		}
		checks(b.BypassChecks, map[workflow.Status]workflow.Status{workflow.NotStarted: workflow.NotStarted, workflow.Running: workflow.Failed, workflow.Completed: workflow.Failed}[st])
		checks(b.PreChecks, pre)
		checks(b.ContChecks, st)
		checks(b.PostChecks, post)
		checks(b.DeferredChecks, post)
		for si, s := range b.Sequences {
			sst := st
			if st == workflow.Running && si > 0 && r.Intn(2) == 0 {
				sst = workflow.NotStarted
			}
			set(s.State, sst)
			run := 0
			if sst == workflow.Running {
				run = r.Intn(len(s.Actions))
			}
			for ai, a := range s.Actions {
				ast := sst
				if sst == workflow.Running {
					switch {
					case ai < run:
						ast = workflow.Completed
					case ai > run:
						ast = workflow.NotStarted
					}
				}
				set(a.State, ast)
				if ast == workflow.NotStarted {
					a.Attempts = nil
				}
			}
		}
	}
}

// ---- canonical comparison

// c18Wrap puts a sub-object into an otherwise empty plan so that store.Canon can be used for every entry point.
func c18Wrap(obj any) *workflow.Plan {
	switch x := obj.(type) {
	case *workflow.Plan:
		return x
	case *workflow.Block:
		return &workflow.Plan{Blocks: []*workflow.Block{x}}
	case *workflow.Sequence:
		return &workflow.Plan{Blocks: []*workflow.Block{{Sequences: []*workflow.Sequence{x}}}}
	case *workflow.Checks:
		return &workflow.Plan{PreChecks: x}
	case *workflow.Action:
		return &workflow.Plan{Blocks: []*workflow.Block{{Sequences: []*workflow.Sequence{{Actions: []*workflow.Action{x}}}}}}
	}
	return nil
}

func c18EachAction(p *workflow.Plan, n *store.Node, f func(a *workflow.Action, an *store.Node)) {
	group := func(c *workflow.Checks, name string, parent *store.Node) {
		if c == nil || len(parent.Groups[name]) == 0 {
			return
		}
		cn := parent.Groups[name][0]
		for i, a := range c.Actions {
			if i < len(cn.Groups["actions"]) {
				f(a, cn.Groups["actions"][i])
			}
		}
	}
	group(p.BypassChecks, "bypass", n)
	group(p.PreChecks, "pre", n)
	group(p.ContChecks, "cont", n)
	group(p.PostChecks, "post", n)
	group(p.DeferredChecks, "deferred", n)
	for bi, b := range p.Blocks {
		if bi >= len(n.Groups["blocks"]) {
			break
		}
		bn := n.Groups["blocks"][bi]
		group(b.BypassChecks, "bypass", bn)
		group(b.PreChecks, "pre", bn)
		group(b.ContChecks, "cont", bn)
		group(b.PostChecks, "post", bn)
		group(b.DeferredChecks, "deferred", bn)
		for si, s := range b.Sequences {
			if si >= len(bn.Groups["sequences"]) {
				break
			}
			sn := bn.Groups["sequences"][si]
			for i, a := range s.Actions {
				if i < len(sn.Groups["actions"]) {
					f(a, sn.Groups["actions"][i])
				}
			}
		}
	}
}

func c18EachNode(n *store.Node, f func(n *store.Node)) {
	if n == nil {
		return
	}
	f(n)
	for _, g := range n.Groups {
		for _, c := range g {
			c18EachNode(c, f)
		}
	}
}

// c18Canon is store.Canon of the wrapped object; blank=true compares C18 requests/responses with their
// secure-tagged fields zeroed on both sides (what replaces a scrubbed value is C17's business).
func c18Canon(obj any, blank bool) (n *store.Node, keys int) {
	p := c18Wrap(obj)
	n = store.Canon(p)
	c18EachNode(n, func(x *store.Node) {
		if k, ok := x.Def["key"].(string); ok && k != "" {
			keys++
			if !c18KeyIsDefinition {
				x.Def["key"] = ""
			}
		}
	})
	if blank {
		c18EachAction(p, n, func(a *workflow.Action, an *store.Node) {
			if b, ok := c18Blank(a.Req); ok {
				an.Def["req"] = c18Typed(b)
			}
			for i, at := range a.Attempts {
				if at == nil || i >= len(an.Attempts) {
					continue
				}
				if b, ok := c18Blank(at.Resp); ok {
					an.Attempts[i].Resp = c18Typed(b)
				}
			}
		})
	}
	return n, keys
}

// ---- shared memory

type c18Region struct {
	lo, hi uintptr
	label  string
}

var c18WorkflowPkgs = map[string]bool{
	"github.com/element-of-surprise/coercion/workflow": true,
	"github.com/element-of-surprise/coercion/plugins":  true,
}

// c18Walk visits the address range of every pointer target, slice backing array and map reachable from v
// through exported fields; visit returns false to stop descending below that reference. Immutable or
// memory-less things are skipped: strings, zero-capacity slices, zero-size pointees, and the inside of
// time.Time (its *Location is shared by design and never written).
func c18Walk(v reflect.Value, label string, visit func(r c18Region) bool, seen map[uintptr]bool, depth int) {
	if !v.IsValid() || depth > 64 {
		return
	}
	switch v.Kind() {
	case reflect.Ptr:
		if v.IsNil() {
			return
		}
		p := v.Pointer()
		if sz := v.Type().Elem().Size(); sz > 0 {
			if !visit(c18Region{p, p + sz, label}) {
				return
			}
		}
		if seen[p] {
			return
		}
		seen[p] = true
		c18Walk(v.Elem(), label, visit, seen, depth+1)
	case reflect.Interface:
		if !v.IsNil() {
			c18Walk(v.Elem(), label, visit, seen, depth+1)
		}
	case reflect.Slice:
		if v.IsNil() {
			return
		}
		if sz := v.Type().Elem().Size(); sz > 0 && v.Cap() > 0 {
			p := v.Pointer()
			if !visit(c18Region{p, p + uintptr(v.Cap())*sz, label}) {
				return
			}
		}
		if k := v.Type().Elem().Kind(); k == reflect.Uint8 || k == reflect.String || k == reflect.Int || k == reflect.Float64 {
			return
		}
		for i := 0; i < v.Len(); i++ {
			c18Walk(v.Index(i), label, visit, seen, depth+1)
		}
	case reflect.Map:
		if v.IsNil() {
			return
		}
		p := v.Pointer()
		if !visit(c18Region{p, p + 1, label}) {
			return
		}
		it := v.MapRange()
		for it.Next() {
			c18Walk(it.Value(), label, visit, seen, depth+1)
		}
	case reflect.Array:
		if k := v.Type().Elem().Kind(); k == reflect.Uint8 {
			return
		}
		for i := 0; i < v.Len(); i++ {
			c18Walk(v.Index(i), label, visit, seen, depth+1)
		}
	case reflect.Struct:
		t := v.Type()
		if t == rwTimeType {
			return
		}
		own := c18WorkflowPkgs[t.PkgPath()]
		for i := 0; i < t.NumField(); i++ {
			f := t.Field(i)
			if !f.IsExported() {
				continue
			}
			l := label
			if own {
				l = t.Name() + "." + f.Name
			}
			c18Walk(v.Field(i), l, visit, seen, depth+1)
		}
	}
}

// c18RegionSet answers "does [lo,hi) overlap any region" in O(log n).
type c18RegionSet struct {
	rs    []c18Region
	maxHi []uintptr // prefix maximum of hi
}

func c18Regions(obj any) *c18RegionSet {
	set := &c18RegionSet{}
	c18Walk(reflect.ValueOf(obj), "root", func(r c18Region) bool { set.rs = append(set.rs, r); return true }, map[uintptr]bool{}, 0)
	sort.Slice(set.rs, func(i, j int) bool { return set.rs[i].lo < set.rs[j].lo })
	set.maxHi = make([]uintptr, len(set.rs))
	var m uintptr
	for i, r := range set.rs {
		if r.hi > m {
			m = r.hi
		}
		set.maxHi[i] = m
	}
	return set
}

func (s *c18RegionSet) overlaps(r c18Region) bool {
	k := sort.Search(len(s.rs), func(i int) bool { return s.rs[i].lo >= r.hi }) // regions [0,k) start below r.hi
	return k > 0 && s.maxHi[k-1] > r.lo
}

// c18Overlap returns where (outermost reference, as <Type>.<Field> of the owning workflow object) memory
// reachable from the clone is also reachable from the original.
func c18Overlap(orig *c18RegionSet, cl any) []string {
	set := map[string]bool{}
	c18Walk(reflect.ValueOf(cl), "root", func(r c18Region) bool {
		if orig.overlaps(r) {
			set[r.label] = true
			return false // everything below is shared as a consequence
		}
		return true
	}, map[uintptr]bool{}, 0)
	var out []string
	for l := range set {
		out = append(out, l)
	}
	sort.Strings(out)
	return out
}

// c18Mutate changes every piece of memory reachable from v (in place: nothing is re-allocated except map values).
func c18Mutate(v reflect.Value, depth int) {
	if !v.IsValid() || depth > 64 {
		return
	}
	switch v.Kind() {
	case reflect.String:
		if v.CanSet() {
			v.SetString(v.String() + "~mut")
		}
	case reflect.Bool:
		if v.CanSet() {
			v.SetBool(!v.Bool())
		}
	case reflect.Int, reflect.Int8, reflect.Int16, reflect.Int32, reflect.Int64:
		if v.CanSet() {
			v.SetInt(v.Int() + 1)
		}
	case reflect.Uint, reflect.Uint8, reflect.Uint16, reflect.Uint32, reflect.Uint64:
		if v.CanSet() {
			v.SetUint(v.Uint() + 1)
		}
	case reflect.Float32, reflect.Float64:
		if v.CanSet() {
			v.SetFloat(v.Float() + 1)
		}
	case reflect.Ptr:
		if !v.IsNil() {
			c18Mutate(v.Elem(), depth+1)
		}
	case reflect.Interface:
		if !v.IsNil() {
			c18Mutate(v.Elem(), depth+1) // reaches whatever the boxed value references
		}
	case reflect.Slice, reflect.Array:
		for i := 0; i < v.Len(); i++ {
			c18Mutate(v.Index(i), depth+1)
		}
	case reflect.Map:
		if v.IsNil() {
			return
		}
		for _, k := range v.MapKeys() {
			nv := reflect.New(v.Type().Elem()).Elem()
			nv.Set(v.MapIndex(k))
			c18Mutate(nv, depth+1)
			v.SetMapIndex(k, nv)
		}
		if v.Type().Key().Kind() == reflect.String {
			v.SetMapIndex(reflect.ValueOf("~mut").Convert(v.Type().Key()), reflect.Zero(v.Type().Elem()))
		}
	case reflect.Struct:
		t := v.Type()
		if t == rwTimeType {
			if v.CanSet() {
				v.Set(reflect.ValueOf(v.Interface().(time.Time).Add(time.Hour)))
			}
			return
		}
		for i := 0; i < t.NumField(); i++ {
			if t.Field(i).IsExported() {
				c18Mutate(v.Field(i), depth+1)
			}
		}
	}
}

// ---- entry points

type c18Entry struct {
	name string
	obj  any
	run  func(ctx context.Context, o ...clone.Option) any
}

func c18Entries(r *rand.Rand, p *workflow.Plan) []c18Entry {
	b := p.Blocks[r.Intn(len(p.Blocks))]
	s := b.Sequences[r.Intn(len(b.Sequences))]
	var groups []*workflow.Checks
	var actions []*workflow.Action
	for _, lo := range liveObjects(p) {
		switch lo.kind {
		case "checks":
			groups = append(groups, lo.checks)
		case "action":
			actions = append(actions, lo.action)
		}
	}
	a := actions[r.Intn(len(actions))]
	out := []c18Entry{
		{"Plan", p, func(ctx context.Context, o ...clone.Option) any { return clone.Plan(ctx, p, o...) }},
		{"Block", b, func(ctx context.Context, o ...clone.Option) any { return clone.Block(ctx, b, o...) }},
		{"Sequence", s, func(ctx context.Context, o ...clone.Option) any { return clone.Sequence(ctx, s, o...) }},
	}
	if len(groups) > 0 {
		c := groups[r.Intn(len(groups))]
		out = append(out, c18Entry{"Checks", c, func(ctx context.Context, o ...clone.Option) any { return clone.Checks(ctx, c, o...) }})
	}
	out = append(out, c18Entry{"Action", a, func(ctx context.Context, o ...clone.Option) any { return clone.Action(ctx, a, o...) }})
	return out
}

func c18IsNil(x any) bool {
	if x == nil {
		return true
	}
	v := reflect.ValueOf(x)
	return v.Kind() == reflect.Ptr && v.IsNil()
}

// c18NotStripped lists the engine-owned fields still set in a default clone.
func c18NotStripped(obj any) []string {
	set := map[string]bool{}
	p := c18Wrap(obj)
	if p.ID != uuid.Nil {
		set["Plan.ID"] = true
	}
	if p.State != nil {
		set["Plan.State"] = true
	}
	if p.Reason != workflow.FRUnknown {
		set["Plan.Reason"] = true
	}
	if !p.SubmitTime.IsZero() {
		set["Plan.SubmitTime"] = true
	}
	for _, lo := range liveObjects(p) {
		switch lo.kind {
		case "block":
			if lo.block.ID != uuid.Nil {
				set["Block.ID"] = true
			}
			if lo.block.State != nil {
				set["Block.State"] = true
			}
		case "checks":
			if lo.checks.ID != uuid.Nil {
				set["Checks.ID"] = true
			}
			if lo.checks.State != nil {
				set["Checks.State"] = true
			}
		case "seq":
			if lo.seq.ID != uuid.Nil {
				set["Sequence.ID"] = true
			}
			if lo.seq.State != nil {
				set["Sequence.State"] = true
			}
		case "action":
			if lo.action.ID != uuid.Nil {
				set["Action.ID"] = true
			}
			if lo.action.State != nil {
				set["Action.State"] = true
			}
			if lo.action.Attempts != nil {
				set["Action.Attempts"] = true
			}
		}
	}
	var out []string
	for k := range set {
		out = append(out, k)
	}
	sort.Strings(out)
	return out
}

func c18ErrClass(err error) string {
	s := err.Error()
	if i := strings.LastIndex(s, "Plan validation: "); i >= 0 {
		s = s[i+len("Plan validation: "):]
	}
	s = strings.Map(func(r rune) rune {
		switch {
		case r >= '0' && r <= '9':
			return -1
		case r == '/':
			return '_'
		}
		return r
	}, s)
	for _, cut := range []string{"(", "\"", ":"} {
		if i := strings.Index(s, cut); i > 8 {
			s = s[:i]
		}
	}
	s = strings.TrimSpace(s)
	if len(s) > 48 {
		s = s[:48]
	}
	return s
}

// c18Workstream opens a fresh workstream over a fresh in-memory sqlite vault.
func c18Workstream(ctx context.Context) (*coercion.Workstream, *store.Handle, error) {
	reg := c18Registry()
	h, err := store.NewSQLiteMem(ctx, reg)
	if err != nil {
		return nil, nil, err
	}
	ws, err := coercion.New(ctx, reg, h.Vault, coercion.WithNoRecovery())
	if err != nil {
		return nil, nil, err
	}
	return ws, h, nil
}

func c18Run(c *Ctx, idx int) CaseResult {
	ctx := context.Background()
	r := gen.Rand(c.Seed, "C18", idx)
	res := CaseResult{Counters: map[string]int{}}
	seen := map[string]bool{}
	add := func(rule, disc, f string, a ...any) {
		v := ev.V("C18", rule, disc, f, a...)
		if seen[v.Sig] {
			return
		}
		seen[v.Sig] = true
		res.Viols = append(res.Viols, v)
	}
	state := c18States[idx%len(c18States)]
	res.Counters["state_"+state]++
	o := store.GenOpts{MaxBlocks: 2, MaxSeqs: 2, MaxActions: 2, Executed: state == "executed" || state == "running"}
	if r.Intn(4) == 0 {
		o.MaxBlocks, o.MaxSeqs, o.MaxActions = 3, 3, 3
	}
	p := store.RandPlan(r, o)
	c18Definition(r, p)
	switch state {
	case "fresh":
		c18Strip(p)
	case "stored":
		c18Strip(p)
		ws, h, err := c18Workstream(ctx)
		if err == nil {
			_, err = ws.Submit(ctx, p)
		}
		if err == nil && r.Intn(2) == 0 {
			// the object as read back from storage instead of the submitted one
			var rp *workflow.Plan
			rp, err = h.Vault.Read(ctx, p.ID)
			if err == nil {
				p = rp
				res.Counters["stored_read_back"]++
			}
		}
		if err != nil {
			res.Verdict, res.Note = "inconclusive", "cannot prepare the stored plan: "+err.Error()
			return res
		}
	case "running":
		c18Running(r, p)
	}
	entries := c18Entries(r, p)
	canonSummary := store.Canon(p).Summary()
	res.Nontriv = hashStr(state + "|" + canonSummary)
	counts := store.Canon(p).Count(nil)
	if idx < 4 {
		res.Sample = map[string]any{"state": state, "objects": counts, "shape": canonSummary}
	}
	witness := map[string]any{"state": state, "objects": counts, "shape": canonSummary}
	var notes []string
	note := func(f string, a ...any) {
		if len(notes) < 12 {
			notes = append(notes, fmt.Sprintf(f, a...))
		}
	}

	type optCombo struct {
		keepState, keepSecrets bool
	}
	combos := []optCombo{{false, false}, {false, true}, {true, false}, {true, true}}
	mkOpts := func(oc optCombo) (opts []clone.Option, name string) {
		if oc.keepState {
			opts = append(opts, clone.WithKeepState())
			name += "+WithKeepState"
		}
		if oc.keepSecrets {
			opts = append(opts, clone.WithKeepSecrets())
			name += "+WithKeepSecrets"
		}
		return
	}

	// ---- phase 1: per clone oracles; then the clone is overwritten and the original must not notice
	fpOrig := fingerprintOf(p)
	var cloneWS *coercion.Workstream
	for _, e := range entries {
		origRegions := c18Regions(e.obj)
		for _, oc := range combos {
			opts, oname := mkOpts(oc)
			api := "clone." + e.name + oname
			var cl any
			pclass, pfull := safely(func() { cl = e.run(ctx, opts...) })
			res.Events++
			if pclass != "" {
				add("panic", "clone."+e.name+":"+pclass, "%s panicked on a %s plan: %s", api, state, trunc17(pfull, 400))
				note("%s panicked: %s", api, trunc17(pfull, 200))
				continue
			}
			if c18IsNil(cl) {
				add("nil-clone", e.name, "%s returned nil for a non-nil %s", api, e.name)
				continue
			}
			if fp := fingerprintOf(p); fp != fpOrig {
				add("original-changed", "by-cloning", "%s changed the original", api)
				fpOrig = fp
			}
			// (1)/(4) definition, and state when kept
			want, wkeys := c18Canon(e.obj, !oc.keepSecrets)
			got, gkeys := c18Canon(cl, !oc.keepSecrets)
			if wkeys != gkeys {
				res.Counters["info_key_dropped"] += wkeys - gkeys
			}
			res.Events++
			if f, msg := store.Diff(want, got, store.DiffOpts{DefOnly: true}); msg != "" {
				rule := "definition"
				if oc.keepSecrets && (f == "action.req") {
					// is it only the secure-tagged part that differs?
					w2, _ := c18Canon(e.obj, true)
					g2, _ := c18Canon(cl, true)
					if _, m2 := store.Diff(w2, g2, store.DiffOpts{DefOnly: true}); m2 == "" {
						rule, f = "secrets-not-kept", "action.req via="+e.name
					}
				}
				add(rule, f, "%s of a %s plan: the clone's definition differs from the original's: %s", api, state, msg)
				note("%s: %s", api, msg)
			} else if oc.keepState {
				res.Events++
				if f, msg := store.Diff(want, got, store.DiffOpts{}); msg != "" {
					rule := "keepstate"
					if oc.keepSecrets && f == "attempt.Resp" {
						w2, _ := c18Canon(e.obj, true)
						g2, _ := c18Canon(cl, true)
						if _, m2 := store.Diff(w2, g2, store.DiffOpts{}); m2 == "" {
							rule, f = "secrets-not-kept", "attempt.Resp via="+e.name
						}
					}
					add(rule, f, "%s of a %s plan: engine state of the clone differs from the original's: %s", api, state, msg)
					note("%s: %s", api, msg)
				}
			}
			// (3) default: engine-owned state stripped
			if !oc.keepState {
				res.Events++
				for _, f := range c18NotStripped(cl) {
					add("not-stripped", f, "%s of a %s plan: %s is still set in the clone", api, state, f)
					note("%s: %s still set", api, f)
				}
			}
			// (2) no shared mutable memory
			res.Events++
			shared := c18Overlap(origRegions, cl)
			for _, l := range shared {
				add("shared-memory", l, "%s of a %s plan: memory reachable from the clone at %s is also reachable from the original", api, state, l)
				note("%s: shared memory at %s", api, l)
			}
			// (3) resubmittable
			if e.name == "Plan" && !oc.keepState {
				// one fresh workstream per case receives the default clones (nothing else was ever submitted to it)
				var serr, setup error
				if cloneWS == nil {
					cloneWS, _, setup = c18Workstream(ctx)
				}
				pc, pf := "", ""
				if setup == nil {
					pc, pf = safely(func() { _, serr = cloneWS.Submit(ctx, cl.(*workflow.Plan)) })
				}
				res.Events++
				res.Counters["submits"]++
				switch {
				case pc != "":
					add("panic", "Submit(clone):"+pc, "Submit of %s of a %s plan panicked: %s", api, state, trunc17(pf, 400))
				case setup != nil:
					res.Verdict, res.Note = "inconclusive", "cannot create a workstream: "+setup.Error()
					return res
				case serr != nil:
					add("submit-rejected", c18ErrClass(serr), "Submit rejected %s of a %s plan: %v", api, state, serr)
					note("%s: Submit: %v", api, serr)
				}
			}
			// mutate the clone, observe the original
			res.Events++
			c18Mutate(reflect.ValueOf(cl), 0)
			if fp := fingerprintOf(p); fp != fpOrig {
				if len(shared) == 0 {
					add("aliasing", "write-to-clone-visible-in-original", "%s of a %s plan: overwriting everything reachable from the clone changed the original", api, state)
				}
				note("%s: writes to the clone are visible in the original", api)
				// the original is damaged: stop here
				res.Witness = map[string]any{"input": witness, "notes": notes}
				return res
			}
		}
	}

	// ---- phase 2: overwrite the original, no clone may notice
	type made struct {
		api    string
		cl     any
		fp     string
		shared bool
	}
	var clones []made
	for _, e := range entries {
		for _, oc := range combos {
			opts, oname := mkOpts(oc)
			var cl any
			if pc, _ := safely(func() { cl = e.run(ctx, opts...) }); pc != "" || c18IsNil(cl) {
				continue
			}
			clones = append(clones, made{api: "clone." + e.name + oname, cl: cl, fp: fingerprintOf(cl)})
		}
	}
	c18Mutate(reflect.ValueOf(p), 0)
	for _, m := range clones {
		res.Events++
		if fingerprintOf(m.cl) != m.fp {
			if !seen["C18/shared-memory"] && !hasPrefixKey(seen, "C18/shared-memory/") {
				add("aliasing", "write-to-original-visible-in-clone", "%s of a %s plan: overwriting everything reachable from the original changed the clone", m.api, state)
			}
			note("%s: writes to the original are visible in the clone", m.api)
		}
	}
	if len(res.Viols) > 0 {
		res.Witness = map[string]any{"input": witness, "notes": notes}
	}
	return res
}

func hasPrefixKey(m map[string]bool, prefix string) bool {
	for k := range m {
		if strings.HasPrefix(k, prefix) {
			return true
		}
	}
	return false
}

func init() {
	register(&Prop{
		ID: "C18", Level: "exploration", Batch: 30, PerCaseTimeout: 30 * time.Second,
		Rule: "case i = PRNG(seed,i): a random plan (store.RandPlan: 1-3 blocks, checks groups in every slot, value/pointer/nil requests with nested pointers, slices, maps, bytes, times; " +
			"a share of actions gets request/response types with secure-tagged fields) in state i mod 4 = fresh (no ids/state), stored (Submit on an in-memory sqlite workstream, the submitted or the read-back object), " +
			"executed (random statuses, attempts with responses and error chains, reason, submit time) or running snapshot (consistent prefix Completed / one block Running / rest NotStarted); " +
			"clone.Plan and clone.Block/Sequence/Checks/Action of random sub-objects x {default, WithKeepSecrets, WithKeepState, both}: definition equality (store.Canon/Diff, secure-tagged fields blanked unless kept), " +
			"address ranges of all pointers/slices/maps reachable from clone and original disjoint, default clones stripped and accepted by Submit on a fresh workstream, kept state equal, " +
			"overwrite-clone-observe-original and overwrite-original-observe-clones. Every case is non-trivial (requests contain references); distinct by hash of (state, object tree with statuses and attempt counts)",
		Cases:         nCases(1000, 40000),
		Run:           c18Run,
		MinNontrivial: 30,
		Assumptions: []string{
			"plans are well-formed (no nil entries) with submittable definitions (timeouts 0 or >= 5s, registered plugins)",
			"the user-supplied Key is not in the statement's list of definition fields: its loss is counted (info_key_dropped), not reported",
			"unexported fields (registry pointer, plan id back-reference) and the *time.Location inside time.Time are not mutable memory in the sense of the statement",
			"executed and running inputs are synthesised (random or shaped statuses/attempts), not produced by engine runs",
		},
	})
}
