package checks

import (
	"os"
	"testing"
)

func TestMain(m *testing.M) {
	if os.Getenv("VERIF_CHILD") == "killrun" {
		os.Exit(killRunChild())
	}
	if os.Getenv("VERIF_CHILD") == "killrecover" {
		os.Exit(killRecoverChild())
	}
	if os.Getenv("VERIF_CHILD") == "c08fault" {
		os.Exit(c08FaultChild())
	}
	if os.Getenv("VERIF_CHILD") == "c14kill" {
		os.Exit(c14KillChild())
	}
	if os.Getenv("VERIF_CHILD") != "" {
		os.Exit(childMain())
	}
	if os.Getenv("VERIF_PROP") != "" {
		os.Exit(parentMain())
	}
	os.Exit(m.Run())
}
