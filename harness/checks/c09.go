package checks

import (
	"fmt"
	"math/rand"
	"strings"
	"sync"
	"sync/atomic"
	"time"

	"github.com/element-of-surprise/coercion/workflow/storage/sqlite"

	"verifharness/internal/crash"
	"verifharness/internal/ev"
	"verifharness/internal/gen"
	"verifharness/internal/oracle"
	"verifharness/internal/plug"
	"verifharness/internal/spec"
)

// ---------- plan space for the crash properties ----------

func step(ok bool, us int) []plug.Step {
	if ok {
		return []plug.Step{{Out: plug.OK, SleepUS: us}}
	}
	return []plug.Step{{Out: plug.Permanent, SleepUS: us}}
}

const crashBoxA = 1272 // blocks x seqs x actions x outcomes x T x C, no checks
const crashBoxB = 486  // 1-block/1-seq skeleton x 3^5 group assignments at plan and block level
const crashBox = crashBoxA + crashBoxB

// crashBoxPlan enumerates the bounded-exhaustive box.
func crashBoxPlan(i int) spec.Plan {
	p := spec.Plan{Name: "p0"}
	if i < crashBoxA {
		tc := i % 4
		i /= 4
		T, C := tc%2, 1+tc/2
		// shapes in order of (b,s,a) with 2^(b*s*a) outcome masks each
		for b := 1; b <= 2; b++ {
			for s := 1; s <= 2; s++ {
				for a := 1; a <= 2; a++ {
					n := 1 << (b * s * a)
					if i >= n {
						i -= n
						continue
					}
					bit := 0
					for bi := 0; bi < b; bi++ {
						blk := spec.Block{Conc: C, Tol: T}
						for si := 0; si < s; si++ {
							var sq spec.Seq
							for ai := 0; ai < a; ai++ {
								// retry budgets 0,1,2 in turn: an action with budget left but a durable result must not run again
								sq.Actions = append(sq.Actions, spec.Action{Steps: step(i&(1<<bit) == 0, 300), Retries: bit % 3})
								bit++
							}
							blk.Seqs = append(blk.Seqs, sq)
						}
						p.Blocks = append(p.Blocks, blk)
					}
					p.AssignTags()
					return p
				}
			}
		}
	}
	i -= crashBoxA
	level := i / 243
	k := i % 243
	var groups [5]*spec.Checks
	for g := 0; g < 5; g++ {
		d := k % 3
		k /= 3
		if d == 0 {
			continue
		}
		groups[g] = &spec.Checks{DelayUS: 700, Actions: []spec.Action{{Steps: step(d == 1, 200)}}}
	}
	blk := spec.Block{Conc: 1, Tol: 0, Seqs: []spec.Seq{{Actions: []spec.Action{{Steps: step(true, 1500), Retries: 1}, {Steps: step(true, 300)}}}}}
	if level == 0 {
		p.Bypass, p.Pre, p.Cont, p.Post, p.Deferred = groups[0], groups[1], groups[2], groups[3], groups[4]
	} else {
		blk.Bypass, blk.Pre, blk.Cont, blk.Post, blk.Deferred = groups[0], groups[1], groups[2], groups[3], groups[4]
	}
	p.Blocks = []spec.Block{blk}
	p.AssignTags()
	return p
}

// crashRandPlan: random larger plans, outcomes a function of the action alone (one step, repeated).
func crashRandPlan(r *rand.Rand) spec.Plan {
	g := gen.Base()
	g.MaxBlocks, g.MaxSeqs, g.MaxActions = 2, 3, 2
	g.MaxRetries = 0
	g.PTransient = 0
	g.SleepUS = [2]int{0, 1500}
	g.TailP = 0
	g.ContSleepUS = [2]int{0, 600}
	g.ContDelayUS = [2]int{300, 1500}
	g.PFailCont = 0.2
	// a continuous check that fails at a later run is not "a function of the action alone": such plans are explored
	// with the termination and consistency rules only (hasFailingCont switches the outcome rule off)
	g.MaxContFailRun = 3
	g.PFailPost, g.PFailDeferred = 0.2, 0.25
	g.NoBlockDelays = true
	g.PFailSeqAction = 0.2
	p := g.Plan(r, "p0")
	// retry budgets on single-step scripts: the outcome stays a function of the action alone, but recovery sees
	// actions that have budget left next to a durable result
	addRetries := func(c *spec.Checks) {
		if c != nil {
			for i := range c.Actions {
				c.Actions[i].Retries = r.Intn(3)
			}
		}
	}
	addRetries(p.Bypass)
	addRetries(p.Pre)
	addRetries(p.Post)
	addRetries(p.Deferred)
	for bi := range p.Blocks {
		b := &p.Blocks[bi]
		addRetries(b.Bypass)
		addRetries(b.Pre)
		addRetries(b.Post)
		addRetries(b.Deferred)
		for si := range b.Seqs {
			for ai := range b.Seqs[si].Actions {
				b.Seqs[si].Actions[ai].Retries = r.Intn(4)
			}
		}
	}
	return p
}

// crashBusyPlan: a failure becomes durable WHILE sequences of the block are executing (a continuous check of the
// block or of the plan that fails at a later run, or a fast failing sequence next to slow ones with tolerance 0),
// with deferred/post groups around. The durable states "failure recorded, siblings still Running" only exist in
// such plans; the box and the random plans reach them rarely.
func crashBusyPlan(r *rand.Rand) spec.Plan {
	p := spec.Plan{Name: "p0"}
	grp := func(ok bool) *spec.Checks {
		return &spec.Checks{DelayUS: 300 + r.Intn(600), Actions: []spec.Action{{Steps: step(ok, r.Intn(400)), Retries: r.Intn(2)}}}
	}
	lateFail := func() *spec.Checks {
		var st []plug.Step
		for n := 1 + r.Intn(2); n > 0; n-- {
			st = append(st, plug.Step{Out: plug.OK, SleepUS: 100 + r.Intn(400)})
		}
		st = append(st, plug.Step{Out: plug.Permanent, SleepUS: 100 + r.Intn(300)})
		return &spec.Checks{DelayUS: 300 + r.Intn(500), Actions: []spec.Action{{Steps: st}}}
	}
	mode := r.Intn(3)
	blk := spec.Block{Conc: 2 + r.Intn(2), Tol: 0}
	nseq := 2 + r.Intn(2)
	for si := 0; si < nseq; si++ {
		var sq spec.Seq
		for ai := 0; ai < 2; ai++ {
			sq.Actions = append(sq.Actions, spec.Action{Steps: step(true, 900+r.Intn(1500)), Retries: r.Intn(3)})
		}
		blk.Seqs = append(blk.Seqs, sq)
	}
	switch mode {
	case 0:
		blk.Cont = lateFail()
	case 1:
		p.Cont = lateFail()
	case 2:
		blk.Seqs[r.Intn(nseq)].Actions[0] = spec.Action{Steps: step(false, 100+r.Intn(300))}
		blk.Tol = r.Intn(2) * r.Intn(2) // mostly 0
	}
	if r.Intn(2) == 0 {
		blk.Deferred = grp(r.Intn(4) != 0)
	}
	if r.Intn(3) == 0 {
		blk.Post = grp(true)
	}
	if r.Intn(3) == 0 {
		blk.Pre = grp(true)
	}
	if r.Intn(2) == 0 {
		p.Deferred = grp(r.Intn(4) != 0)
	}
	if r.Intn(3) == 0 {
		p.Pre = grp(true)
	}
	p.Blocks = append(p.Blocks, blk)
	if r.Intn(2) == 0 {
		p.Blocks = append(p.Blocks, spec.Block{Conc: 1, Tol: 0, Seqs: []spec.Seq{{Actions: []spec.Action{{Steps: step(true, 300)}}}}})
	}
	if r.Intn(3) == 0 { // the busy block second
		p.Blocks[0], p.Blocks[len(p.Blocks)-1] = p.Blocks[len(p.Blocks)-1], p.Blocks[0]
	}
	p.AssignTags()
	return p
}

// crashBypassPlan: a scope whose bypass checks pass, with something after it (a later block, post or deferred checks
// of the plan): recovery has to carry "bypassed" across the crash.
func crashBypassPlan(r *rand.Rand) spec.Plan {
	p := spec.Plan{Name: "p0"}
	grp := func(ok bool, n int) *spec.Checks {
		c := &spec.Checks{DelayUS: 300 + r.Intn(500)}
		for i := 0; i < n; i++ {
			c.Actions = append(c.Actions, spec.Action{Steps: step(ok, 200+r.Intn(900)), Retries: r.Intn(2)})
		}
		return c
	}
	mkBlock := func(bypassed bool) spec.Block {
		blk := spec.Block{Conc: 1 + r.Intn(2), Tol: 0}
		for si := 0; si < 1+r.Intn(2); si++ {
			blk.Seqs = append(blk.Seqs, spec.Seq{Actions: []spec.Action{{Steps: step(true, 300+r.Intn(600))}}})
		}
		if bypassed {
			blk.Bypass = grp(true, 1+r.Intn(2))
			if r.Intn(2) == 0 {
				blk.Pre = grp(true, 1)
			}
			if r.Intn(2) == 0 {
				blk.Deferred = grp(true, 1)
			}
		}
		return blk
	}
	switch r.Intn(3) {
	case 0: // first block bypassed, a block after it
		p.Blocks = []spec.Block{mkBlock(true), mkBlock(false)}
	case 1: // second block bypassed, plan-level groups after it
		p.Blocks = []spec.Block{mkBlock(false), mkBlock(true)}
		p.Post = grp(true, 1)
	case 2: // both
		p.Blocks = []spec.Block{mkBlock(true), mkBlock(true), mkBlock(false)}
	}
	if r.Intn(2) == 0 {
		p.Deferred = grp(true, 1)
	}
	p.AssignTags()
	return p
}

func bypassCases(tier string) int {
	if tier == "thorough" {
		return 60
	}
	return 2
}

// busyCases: how many of the replay cases (the last ones) use crashBusyPlan.
func busyCases(tier string) int {
	if tier == "thorough" {
		return 120
	}
	return 4
}

// crashPlanOf maps a case index to a plan: quick samples the box by PRNG and adds random plans;
// thorough enumerates the whole box and then random plans.
func crashPlanOf(prop string, seed int, tier string, idx int) (spec.Plan, string) {
	r := gen.Rand(seed, "crash", idx) // same plans for C09 and C10
	if idx >= replayCases(tier)-bypassCases(tier) {
		return crashBypassPlan(r), "bypassed block with something after it"
	}
	if idx >= replayCases(tier)-bypassCases(tier)-busyCases(tier) {
		return crashBusyPlan(r), "failure while sequences are executing"
	}
	if tier == "thorough" {
		if idx < crashBox {
			return crashBoxPlan(idx), "box"
		}
		return crashRandPlan(r), "random"
	}
	switch idx % 3 {
	case 0:
		return crashBoxPlan(r.Intn(crashBoxA)), "box-sample (sequences)"
	case 1:
		// check-group box, biased to assignments with at least one failing group
		for try := 0; ; try++ {
			k := r.Intn(crashBoxB)
			fails := false
			for d, kk := 0, k%243; d < 5; d, kk = d+1, kk/3 {
				if kk%3 == 2 {
					fails = true
				}
			}
			if fails || try > 20 {
				return crashBoxPlan(crashBoxA + k), "box-sample (check groups)"
			}
		}
	}
	return crashRandPlan(r), "random"
}

// ---------- expected outcome from the scripts alone ----------

func checksFail(c *spec.Checks) bool {
	if c == nil {
		return false
	}
	for _, a := range c.Actions {
		if !gen.ScriptOutcome(a) {
			return true
		}
	}
	return false
}

// hasFailingCont: some continuous check is scripted to fail at SOME run. Which run a continuous check reaches before
// its scope ends depends on timing (an uninterrupted run on a loaded machine may finish before the failing run, a
// recovered one not), so the outcome of such a plan is not a function of the scripts alone.
func hasFailingCont(ps *spec.Plan) bool {
	mayFail := func(c *spec.Checks) bool {
		if c == nil {
			return false
		}
		for _, a := range c.Actions {
			for _, st := range a.Steps {
				if st.Out != plug.OK {
					return true
				}
			}
		}
		return false
	}
	if mayFail(ps.Cont) {
		return true
	}
	for _, b := range ps.Blocks {
		if mayFail(b.Cont) {
			return true
		}
	}
	return false
}

// expectedFailed evaluates the plan outcome from the scripts (no failing continuous checks assumed).
func expectedFailed(ps *spec.Plan) bool {
	if ps.Bypass != nil && !checksFail(ps.Bypass) {
		return false
	}
	failed := checksFail(ps.Pre)
	if !failed {
		for _, b := range ps.Blocks {
			if b.Bypass != nil && !checksFail(b.Bypass) {
				continue
			}
			bf := checksFail(b.Pre)
			if !bf {
				nf := 0
				for _, s := range b.Seqs {
					for _, a := range s.Actions {
						if !gen.ScriptOutcome(a) {
							nf++
							break
						}
					}
				}
				bf = b.Tol >= 0 && nf > b.Tol
				if !bf {
					bf = checksFail(b.Post)
				}
			}
			if checksFail(b.Deferred) {
				bf = true
			}
			if bf {
				failed = true
				break
			}
		}
		if !failed {
			failed = checksFail(ps.Post)
		}
	}
	if checksFail(ps.Deferred) {
		failed = true
	}
	return failed
}

// ---------- oracles ----------

func isTerminal(st int) bool { return st == spec.Completed || st == spec.Failed }

// c09Oracle: nothing durably finished is executed again.
func c09Oracle(ps *spec.Plan, sk *spec.PlanView, t *oracle.Trace) []ev.Violation {
	var out []ev.Violation
	add := func(rule, disc, f string, a ...any) { out = append(out, ev.V("C09", rule, disc, f, a...)) }
	if isTerminal(sk.Status("P")) && len(t.Invs) > 0 {
		add("finished-plan-rerun", stName(sk.Status("P")), "the plan was durably %s at the crash, yet %s was invoked after restart", stName(sk.Status("P")), t.Invs[0].Tag)
		return out
	}
	// a re-run that invokes no plugin (the stored result of every action is reused) still shows in what the recovering
	// process writes: a sequence, block or sequence action that was durably Completed/Failed is never written Running
	byID := map[string]*spec.ObjView{}
	for i := range sk.Objs {
		byID[sk.Objs[i].ID] = &sk.Objs[i]
	}
	// (the same holds for what the recovering process itself made durable: a block it stored as Completed is finished)
	finished := map[string]int{}
	for id, o := range byID {
		if isTerminal(o.Status) {
			finished[id] = o.Status
		}
	}
	for _, w := range t.Writes {
		o := byID[w.ObjID]
		if o == nil || o.Kind == "checks" || (o.Kind == "action" && !strings.Contains(o.Addr, ".S")) {
			continue // check groups are re-run by design
		}
		if st, was := finished[w.ObjID]; was && w.Status == spec.Running {
			when := "at the crash"
			if !isTerminal(o.Status) {
				when = "by an earlier write of the recovering process"
			}
			add("finished-"+o.Kind+"-rerun", "written-running,"+stName(st), "%s %s was durably %s %s, yet the recovering process wrote it as Running again", o.Kind, o.Addr, stName(st), when)
			break
		}
		if isTerminal(w.Status) {
			finished[w.ObjID] = w.Status
		}
	}
	for bi := range ps.Blocks {
		b := &ps.Blocks[bi]
		ba := fmt.Sprintf("B%d", bi)
		if isTerminal(sk.Status(ba)) {
			for _, inv := range t.Invs {
				// The engine records a Block as Failed before it runs the Block's deferred checks, so a durably
				// Failed Block whose deferred checks had not durably finished is not finished yet: running those
				// checks (once) completes it and is what C10 demands; it is not a re-run.
				if inv.Addr.Block == bi && inv.Addr.Kind == "deferred" && sk.Status(ba) == spec.Failed && !isTerminal(sk.Status(ba+".deferred")) {
					continue
				}
				if inv.Addr.Block == bi {
					add("finished-block-rerun", stName(sk.Status(ba))+","+inv.Addr.Kind, "block %d was durably %s at the crash, yet %s was invoked after restart", bi, stName(sk.Status(ba)), inv.Tag)
					break
				}
			}
			continue
		}
		for si := range b.Seqs {
			sa := fmt.Sprintf("B%d.S%d", bi, si)
			sst := sk.Status(sa)
			for _, a := range b.Seqs[si].Actions {
				o := sk.Get(a.Tag)
				if o == nil || !t.Began(a.Tag) {
					continue
				}
				if isTerminal(sst) {
					add("finished-sequence-rerun", stName(sst), "sequence %s was durably %s at the crash, yet %s was invoked after restart", sa, stName(sst), a.Tag)
					break
				}
				n := len(o.Attempts)
				durableOK := o.Status == spec.Completed || (o.Status == spec.Running && n > 0 && !o.Attempts[n-1].HasErr && o.Attempts[n-1].End != 0)
				if durableOK {
					add("successful-action-rerun", stName(o.Status), "action %s had a durable successful result at the crash (status %s, %d attempts), yet its plugin was invoked again", a.Tag, stName(o.Status), n)
				} else if o.Status == spec.Failed {
					add("failed-action-rerun", "", "action %s was durably Failed at the crash, yet its plugin was invoked again", a.Tag)
				}
			}
		}
	}
	return out
}

// featuresOf describes S_k compactly for signatures: which scopes/groups were in which state.
func skClass(ps *spec.Plan, sk *spec.PlanView, scope string) string {
	var f []string
	for _, k := range spec.Kinds {
		if st := sk.Status(scope + "." + k); st >= 0 {
			f = append(f, fmt.Sprintf("%s=%s", k, stName(st)))
		}
	}
	return strings.Join(f, ",")
}

// c10Oracle: termination, consistency, deferred checks, same outcome.
func c10Oracle(ps *spec.Plan, cap *crash.Captured, sk *spec.PlanView, rec *crash.Recovery, t *oracle.Trace, compareOutcome bool) []ev.Violation {
	var out []ev.Violation
	add := func(rule, disc, f string, a ...any) { out = append(out, ev.V("C10", rule, disc, f, a...)) }
	if !rec.Returned {
		add("hang", "plan="+stName(sk.Status("P")), "recovery did not drive the plan to a terminal state within the watchdog; durable state at the crash: %s", describeSk(sk))
		return out
	}
	fp := rec.Final
	if fp == nil {
		add("no-plan", "", "Wait after recovery returned no plan: %s", rec.WaitErr)
		return out
	}
	// consistency rules (C04 rules 1, 4, 5 without the token tie-in)
	for _, v := range oracle.Consistency("C10", ps, t, fp, false) {
		// refine the discriminator of left-running with the durable state of the owning group at the crash
		if strings.HasPrefix(v.Sig, "C10/left-running/") {
			v.Sig += "," + leftRunningClass(ps, sk, fp)
		}
		out = append(out, v)
	}
	// deferred checks of entered, non-bypassed scopes have run
	deferredRule := func(scope string, d, bypass *spec.Checks) {
		if d == nil {
			return
		}
		if fp.Status(scope) == spec.NotStarted {
			return
		}
		if bypass != nil && fp.Status(scope+".bypass") == spec.Completed {
			return
		}
		if st := fp.Status(scope + ".deferred"); !isTerminal(st) {
			durableFailure := "no"
			if sk.Status(scope) == spec.Failed || anyGroupFailed(sk, scope) || (scope == "P" && anyBlockFailed(ps, sk)) {
				durableFailure = "yes"
			}
			add("deferred-not-run", fmt.Sprintf("scope=%s,durable_failure_at_crash=%s", scope[:1], durableFailure),
				"%s was entered and not bypassed (final %s) but its deferred checks are %s after recovery; durable state at the crash: %s", scope, stName(fp.Status(scope)), stName(st), describeSk(sk))
		}
	}
	deferredRule("P", ps.Deferred, ps.Bypass)
	for bi := range ps.Blocks {
		deferredRule(fmt.Sprintf("B%d", bi), ps.Blocks[bi].Deferred, ps.Blocks[bi].Bypass)
	}
	// same outcome
	if compareOutcome && isTerminal(fp.Status("P")) && fp.Status("P") != cap.Ref.Status("P") {
		add("outcome-differs", fmt.Sprintf("uninterrupted=%s,recovered=%s", stName(cap.Ref.Status("P")), stName(fp.Status("P"))),
			"the uninterrupted run ended %s, the recovered run ended %s; durable state at the crash: %s", stName(cap.Ref.Status("P")), stName(fp.Status("P")), describeSk(sk))
	}
	return out
}

func anyGroupFailed(v *spec.PlanView, scope string) bool {
	for _, k := range []string{"pre", "cont", "post", "deferred"} {
		if v.Status(scope+"."+k) == spec.Failed {
			return true
		}
	}
	return false
}

func anyBlockFailed(ps *spec.Plan, v *spec.PlanView) bool {
	for bi := range ps.Blocks {
		ba := fmt.Sprintf("B%d", bi)
		if v.Status(ba) == spec.Failed || anyGroupFailed(v, ba) {
			return true
		}
		for si := range ps.Blocks[bi].Seqs {
			if v.Status(fmt.Sprintf("%s.S%d", ba, si)) == spec.Failed {
				return true
			}
		}
	}
	return false
}

// leftRunningClass: for the first object left Running, the status its owner had at the crash.
func leftRunningClass(ps *spec.Plan, sk, fp *spec.PlanView) string {
	for _, o := range fp.Objs {
		if o.Status != spec.Running {
			continue
		}
		switch o.Kind {
		case "action":
			a, ok := spec.ParseTag(o.Addr)
			if ok {
				return fmt.Sprintf("owner=%s:%s@crash,%s@end", a.Kind, stName(sk.Status(a.Group())), stName(fp.Status(a.Group())))
			}
		case "checks":
			return fmt.Sprintf("group@crash=%s", stName(sk.Status(o.Addr)))
		case "block", "seq":
			return fmt.Sprintf("%s@crash=%s,plan@crash=%s", o.Kind, stName(sk.Status(o.Addr)), stName(sk.Status("P")))
		}
		return o.Kind
	}
	return "?"
}

func describeSk(sk *spec.PlanView) string {
	var sb strings.Builder
	for _, o := range sk.Objs {
		if o.Kind == "action" && o.Status == spec.NotStarted {
			continue
		}
		fmt.Fprintf(&sb, "%s=%s", o.Addr, stName(o.Status))
		if o.Kind == "action" {
			fmt.Fprintf(&sb, "(%d att)", len(o.Attempts))
		}
		sb.WriteString(" ")
	}
	return sb.String()
}

// ---------- the shared case runner ----------

type crashVisit func(sk *spec.PlanView, rec *crash.Recovery, t *oracle.Trace, second bool, k, j int)

// exploreCrashes runs plan ps uninterrupted and then every crash point; a PRNG-chosen tenth of the crash
// points is followed by every second crash during recovery.
func exploreCrashes(ps *spec.Plan, r *rand.Rand, secondOneIn int, res *CaseResult, visit crashVisit) *crash.Captured {
	cp, err := crash.RunCaptured(ps, 20*time.Second)
	if err != nil {
		res.Verdict = "inconclusive"
		res.Note = "uninterrupted run: " + err.Error()
		return nil
	}
	const watchdog = 15 * time.Second
	// the crash points of one plan are independent executions (own store, log, registry each): a few
	// workers run them concurrently; everything that touches res or the visitor is under mu
	var mu sync.Mutex
	var hangs atomic.Int32
	seen := map[string]bool{} // durable states already recovered from (second crashes)
	seconds := make([]bool, cp.NW+1)
	for k := range seconds {
		seconds[k] = r.Intn(secondOneIn) == 0
	}
	doK := func(k int) {
		if hangs.Load() >= 3 {
			return
		}
		second := seconds[k]
		var cap2 *sqlite.CaptureStmts
		if second {
			cap2 = &sqlite.CaptureStmts{}
		}
		rs, err := crash.Restore([]crash.Layer{{Cap: cp.Cap, K: k}}, cap2)
		if err != nil {
			mu.Lock()
			res.Verdict, res.Note = "inconclusive", "restore: "+err.Error()
			mu.Unlock()
			return
		}
		sk, err := rs.Snapshot(cp.ID)
		if err != nil {
			mu.Lock()
			res.Verdict, res.Note = "inconclusive", "snapshot: "+err.Error()
			mu.Unlock()
			return
		}
		sig0, _ := crash.StateSig(rs.Vault)
		mu.Lock()
		res.Counters["crash_points"]++
		res.Counters["sk_plan_"+stName(sk.Status("P"))]++
		seen[sig0] = true // a second-crash state equal to a first-crash state needs no second look
		mu.Unlock()
		if sk.Status("P") != spec.Running {
			// nothing to resume (C11 decides that such plans are left untouched)
			if isTerminal(sk.Status("P")) {
				mu.Lock()
				visit(sk, nil, nil, false, k, -1)
				mu.Unlock()
			}
			return
		}
		rec := rs.Recover(cp.ID, watchdog)
		t := oracle.Project(rec.Events, cp.ID.String(), -1)
		mu.Lock()
		res.Events += len(rec.Events)
		visit(sk, rec, t, false, k, -1)
		mu.Unlock()
		if !rec.Returned {
			hangs.Add(1)
			return
		}
		if !second {
			return
		}
		// second crashes: step through the writes of this recovery on one store, and recover (on a fresh store)
		// from every durable state that has not been seen for this plan yet
		n2 := cap2.Len()
		stepper, err := crash.Restore([]crash.Layer{{Cap: cp.Cap, K: k}}, nil)
		if err != nil {
			return
		}
		for j := 1; j < n2 && hangs.Load() < 3; j++ {
			if err := stepper.Apply(cap2, j-1); err != nil {
				return
			}
			sig, err := crash.StateSig(stepper.Vault)
			if err != nil {
				return
			}
			mu.Lock()
			res.Counters["second_crash_states_stepped"]++
			dup := seen[sig]
			seen[sig] = true
			mu.Unlock()
			if dup {
				continue
			}
			rs2, err := crash.Restore([]crash.Layer{{Cap: cp.Cap, K: k}, {Cap: cap2, K: j}}, nil)
			if err != nil {
				continue
			}
			sk2, err := rs2.Snapshot(cp.ID)
			if err != nil {
				continue
			}
			if sk2.Status("P") != spec.Running {
				if isTerminal(sk2.Status("P")) {
					mu.Lock()
					visit(sk2, nil, nil, true, k, j)
					mu.Unlock()
				}
				continue
			}
			rec2 := rs2.Recover(cp.ID, watchdog)
			t2 := oracle.Project(rec2.Events, cp.ID.String(), -1)
			mu.Lock()
			res.Counters["second_crash_points"]++
			res.Events += len(rec2.Events)
			visit(sk2, rec2, t2, true, k, j)
			mu.Unlock()
			if !rec2.Returned {
				hangs.Add(1)
			}
		}
	}
	ks := make(chan int)
	var wg sync.WaitGroup
	for w := 0; w < 4; w++ {
		wg.Add(1)
		go func() {
			defer wg.Done()
			for k := range ks {
				doK(k)
			}
		}()
	}
	for k := 0; k <= cp.NW; k++ {
		ks <- k
	}
	close(ks)
	wg.Wait()
	if hangs.Load() >= 3 {
		res.Note = "stopped after 3 hangs"
	}
	return cp
}

func c09Run(c *Ctx, idx int) CaseResult {
	if idx >= replayCases(c.Tier)+killCases(c.Tier) {
		return cosmosCrashCase("C09", c, idx)
	}
	if idx >= replayCases(c.Tier) {
		return realKillCase("C09", c, idx)
	}
	res := CaseResult{Counters: map[string]int{}}
	ps, src := crashPlanOf("C09", c.Seed, c.Tier, idx)
	r := gen.Rand(c.Seed, "crashx", idx)
	var first []any
	cp := exploreCrashes(&ps, r, secondOneIn(c.Tier), &res, func(sk *spec.PlanView, rec *crash.Recovery, t *oracle.Trace, second bool, k, j int) {
		if rec == nil {
			return
		}
		vs := c09Oracle(&ps, sk, t)
		if len(vs) > 0 && first == nil {
			first = []any{map[string]any{"k": k, "j": j, "durable_state": describeSk(sk), "recovery_events": rec.Events}}
		}
		res.Viols = append(res.Viols, vs...)
		durable := 0
		for _, o := range sk.Objs {
			if o.Kind == "action" && (o.Status == spec.Completed || o.Status == spec.Failed) {
				durable++
			}
		}
		if durable > 0 {
			res.Counters["crash_points_with_durable_results"]++
		}
		res.Counters["recovery_invocations"] += len(t.Invs)
	})
	if cp != nil {
		res.Nontriv = hashStr(fmt.Sprint(ps))
		res.ISig = hashStr(fmt.Sprint(cp.NW, ps))
		if idx < 3 {
			res.Sample = map[string]any{"source": src, "plan": ps, "writes": cp.NW, "crash_points": res.Counters["crash_points"], "uninterrupted_status": stName(cp.Ref.Status("P"))}
		}
	}
	if len(res.Viols) > 0 {
		res.Witness = map[string]any{"plan": ps, "first": first}
	}
	return res
}

func c10Run(c *Ctx, idx int) CaseResult {
	if idx >= replayCases(c.Tier)+killCases(c.Tier) {
		return cosmosCrashCase("C10", c, idx)
	}
	if idx >= replayCases(c.Tier) {
		return realKillCase("C10", c, idx)
	}
	res := CaseResult{Counters: map[string]int{}}
	ps, src := crashPlanOf("C10", c.Seed, c.Tier, idx)
	r := gen.Rand(c.Seed, "crashx", idx)
	compare := !hasFailingCont(&ps)
	var cpRef *crash.Captured
	var first []any
	// the closure needs the captured run; run it first through exploreCrashes' own call
	var pending []func()
	cp := exploreCrashes(&ps, r, secondOneIn(c.Tier), &res, func(sk *spec.PlanView, rec *crash.Recovery, t *oracle.Trace, second bool, k, j int) {
		if rec == nil {
			// the plan is durably terminal at this crash point: nobody will ever resume it, so it must
			// already be consistent (nothing left Running)
			res.Counters["terminal_crash_states"]++
			for _, o := range sk.Objs {
				if o.Status == spec.Running {
					res.Viols = append(res.Viols, ev.V("C10", "terminal-at-crash-left-running", fmt.Sprintf("%s,second_crash=%v", o.Kind, second),
						"the plan is durably %s at crash point k=%d j=%d but %s %s is Running and no recovery will look at it again; durable state: %s", stName(sk.Status("P")), k, j, o.Kind, o.Addr, describeSk(sk)))
					break
				}
			}
			return
		}
		pending = append(pending, func() {
			cmp := compare
			if cmp {
				// the evaluator and the uninterrupted run must agree before the case is used for rule 3
				if expectedFailed(&ps) != (cpRef.Ref.Status("P") == spec.Failed) {
					cmp = false
					res.Counters["outcome_rule_skipped_evaluator_disagrees"]++
				}
			}
			vs := c10Oracle(&ps, cpRef, sk, rec, t, cmp)
			if len(vs) > 0 && first == nil {
				first = []any{map[string]any{"k": k, "j": j, "durable_state": describeSk(sk), "final": rec.Final, "recovery_events": rec.Events}}
			}
			res.Viols = append(res.Viols, vs...)
			if cmp {
				res.Counters["outcome_compared"]++
			}
			if second {
				res.Counters["second_crash_recoveries"]++
			}
			res.Counters["recoveries"]++
		})
	})
	if cp != nil {
		cpRef = cp
		for _, f := range pending {
			f()
		}
		res.Nontriv = hashStr(fmt.Sprint(ps))
		res.ISig = hashStr(fmt.Sprint(cp.NW, ps))
		if idx < 3 {
			res.Sample = map[string]any{"source": src, "plan": ps, "writes": cp.NW, "crash_points": res.Counters["crash_points"], "uninterrupted_status": stName(cp.Ref.Status("P")), "outcome_rule_applied": compare}
		}
	}
	if len(res.Viols) > 0 {
		res.Witness = map[string]any{"plan": ps, "first": first}
	}
	return res
}

// replay cases first, then real-kill cases
func replayCases(tier string) int {
	if tier == "thorough" {
		return crashBox + 300 + busyCases(tier) + bypassCases(tier)
	}
	return 18 + busyCases(tier) + bypassCases(tier)
}

func killCases(tier string) int {
	if tier == "thorough" {
		return 200
	}
	return 8
}

// replay cases, then real-kill cases, then cosmosdb cases
func crashCases(tier string) int {
	if tier == "thorough" {
		return replayCases(tier) + killCases(tier) + 24
	}
	return replayCases(tier) + killCases(tier) + 3
}

// secondOneIn: one crash point in n is followed by every second crash during its recovery.
func secondOneIn(tier string) int {
	if tier == "thorough" {
		return 2
	}
	return 5
}

func init() {
	crashRule := "case i = one plan and EVERY prefix k of its committed write sequence (captured with sqlite.WithCapture during an uninterrupted run, replayed into a fresh in-memory store, then a normal Workstream recovers); for a PRNG share of the crash points (quick 1/5, thorough 1/2) the writes of the recovery run are stepped through one by one and a second recovery is run from every durable state not seen before for that plan (second crash); quick: 12 PRNG samples of the bounded box + 6 random plans + 4 plans in which a failure (late continuous-check failure of the block or the plan, fast failing sequence) becomes durable while sibling sequences are executing (thorough: 120 of those) + 2 plans with a bypassed block that has something after it (thorough: 60); thorough: the whole box (1272 shapes blocks<=2 x sequences<=2 x actions<=2 x outcome masks x tolerance{0,1} x concurrency{1,2}, plus 486 = every subset x pass/fail of the five check groups at plan and block level) + 300 random plans; plugin outcomes are a function of the action alone; cross-validation of the crash model by real kills (quick 8, thorough 200 cases): a process running a random plan on a FILE-backed store SIGKILLs itself immediately before/after its PRNG-chosen k-th write, a second process opens the directory, snapshots, recovers and reports, same oracles; distinct by plan spec"
	register(&Prop{
		ID: "C09", Level: "fault_enumeration", Batch: 1, PerCaseTimeout: 1200 * time.Second,
		Rule: crashRule + "; non-trivial = the plan has at least one crash point with a durable action result", Cases: crashCases,
		Run: c09Run, RaceAttr: raceHas("sm.fix", "sm.(*States).fix", "sm.(*States).Recovery"), MinNontrivial: 10,
		Finish: func(tier string, counters map[string]int, cov map[string]any) string {
			if counters["crash_points_with_durable_results"] == 0 {
				return "no crash point with a durable action result was explored"
			}
			return ""
		},
		Assumptions: []string{"crash = process death: the durable state after a crash is a prefix of the committed write sequence (each update is its own auto-commit)", "sqlite only (the cosmosdb fake has no crash semantics)"},
	})
	register(&Prop{
		ID: "C10", Level: "fault_enumeration", Batch: 1, PerCaseTimeout: 1200 * time.Second,
		Rule: crashRule + "; outcome equality is applied when no continuous check is scripted to fail and an 18-line evaluator of the scripts agrees with the uninterrupted run", Cases: crashCases,
		Run: c10Run, RaceAttr: raceHas("sm.fix", "sm.(*States).fix", "sm.(*States).Recovery"), MinNontrivial: 10,
		Finish: func(tier string, counters map[string]int, cov map[string]any) string {
			if counters["recoveries"] == 0 {
				return "no recovery was observed"
			}
			return ""
		},
		Assumptions: []string{"termination is decided against a 15 s watchdog (nominal recovery: tens of milliseconds)", "crash = process death; sqlite only"},
	})
}

func stName(s int) string { return oracle.StName(s) }

// ---------- C03 under recovery: the tolerated-failure rules on plans resumed after a crash ----------

// c03Crash explores every crash point of a plan of the 'tol' shape (single-step scripts) and applies the
// status-based C03 rules to the plan the recovering Workstream ends with.
func c03Crash(c *Ctx, idx int) CaseResult {
	res := CaseResult{Counters: map[string]int{}}
	r := gen.Rand(c.Seed, "C03crash", idx)
	g := gen.Base()
	g.MaxBlocks, g.MaxSeqs, g.MaxActions = 3, 4, 2
	g.MaxRetries, g.PTransient = 0, 0
	g.PCont, g.PBCont = 0, 0
	g.PBypass, g.PBBypass = 0, 0
	g.PPre, g.PPost, g.PBPre, g.PBPost = 0.2, 0.2, 0.2, 0.2
	g.PFailPre, g.PFailPost, g.PFailDeferred = 0, 0, 0
	g.PDeferred, g.PBDeferred = 0.4, 0.5
	g.PFailSeqAction = 0.45
	g.SleepUS = [2]int{0, 1200}
	g.TailP = 0
	g.Tols = []int{-1, 0, 0, 1, 2}
	g.Concs = []int{0, 1, 2, 3}
	g.NoBlockDelays = true
	// every other crash plan: blocks fail through their own checks (pre, post, deferred) rather than through their
	// sequences, with at least one block after the first — the durable states "check group Failed, block still
	// Running" exist only there ("one of its checks failed ... after a Failed block no later block invokes anything")
	failingChecks := (idx/20)%2 == 1
	if failingChecks {
		g.PPre, g.PPost = 0, 0
		g.PBPre, g.PBPost, g.PBDeferred = 0.6, 0.6, 0.4
		g.PFailPre, g.PFailPost, g.PFailDeferred = 0.4, 0.5, 0.3
		g.PFailSeqAction = 0.15
		g.MaxSeqs = 2
	}
	ps := g.Plan(r, "p0")
	for try := 0; failingChecks && len(ps.Blocks) < 2 && try < 20; try++ {
		ps = g.Plan(r, "p0")
	}
	if failingChecks {
		res.Counters["crash_plans_failing_block_checks"]++
	}
	var first any
	cp := exploreCrashes(&ps, r, 1<<30, &res, func(sk *spec.PlanView, rec *crash.Recovery, t *oracle.Trace, second bool, k, j int) {
		if rec == nil || !rec.Returned || rec.Final == nil {
			return
		}
		fp := rec.Final
		res.Counters["recoveries"]++
		var vs []ev.Violation
		add := func(rule, disc, f string, a ...any) { vs = append(vs, ev.V("C03", "recovered/"+rule, disc, f, a...)) }
		firstFailed := -1
		for bi := range ps.Blocks {
			b := &ps.Blocks[bi]
			ba := fmt.Sprintf("B%d", bi)
			bst := fp.Status(ba)
			F := 0
			for si := range b.Seqs {
				if fp.Status(fmt.Sprintf("%s.S%d", ba, si)) == spec.Failed {
					F++
				}
			}
			if firstFailed >= 0 {
				for _, inv := range t.Invs {
					if inv.Addr.Block == bi {
						add("after-failed-block", "", "block %d is Failed, yet %s of block %d was invoked after the restart (crash point %d)", firstFailed, inv.Tag, bi, k)
						break
					}
				}
				if bst != spec.NotStarted {
					add("after-failed-block", "status", "block %d is Failed, yet block %d ended %s (crash point %d)", firstFailed, bi, stName(bst), k)
				}
				continue
			}
			if bst == spec.NotStarted {
				continue
			}
			// a sequence counts as failed exactly when one of its actions failed: a Completed sequence around a Failed
			// action is a failure that was never counted against the tolerance
			for si := range b.Seqs {
				sa := fmt.Sprintf("%s.S%d", ba, si)
				if fp.Status(sa) != spec.Completed {
					continue
				}
				for ai := range b.Seqs[si].Actions {
					if st := fp.Status(b.Seqs[si].Actions[ai].Tag); st != spec.Completed {
						add("seq-status", "completed-with-"+stName(st)+"-action", "after recovery from crash point %d sequence %s is Completed but its action %s is %s", k, sa, b.Seqs[si].Actions[ai].Tag, stName(st))
						break
					}
				}
			}
			T, C := b.Tol, b.EffConc()
			if T >= 0 && F > T+C {
				add("too-many-failures", "", "block %d: %d sequences failed, tolerance %d concurrency %d (crash point %d)", bi, F, T, C, k)
			}
			shouldFail := (T >= 0 && F > T) || anyGroupFailed(fp, ba)
			switch {
			case shouldFail && bst != spec.Failed:
				add("block-status", "should-fail", "after recovery from crash point %d block %d has %d failed sequences (tolerance %d) but ended %s", k, bi, F, T, stName(bst))
			case !shouldFail && bst != spec.Completed:
				add("block-status", "should-complete", "after recovery from crash point %d block %d has %d failed sequences within tolerance %d and no failed check but ended %s", k, bi, F, T, stName(bst))
			}
			if bst == spec.Failed {
				firstFailed = bi
			}
		}
		if firstFailed >= 0 && fp.Status("P") != spec.Failed {
			add("plan-status", "", "block %d is Failed but the recovered plan ended %s", firstFailed, stName(fp.Status("P")))
		}
		if len(vs) > 0 && first == nil {
			first = map[string]any{"k": k, "durable_state": describeSk(sk), "final": fp, "recovery_events": rec.Events}
		}
		res.Viols = append(res.Viols, vs...)
	})
	if cp != nil {
		res.Nontriv = hashStr(fmt.Sprint("crash", ps))
		res.ISig = res.Nontriv
		if cp.Ref.Status("P") == spec.Failed {
			res.Counters["crash_plans_failed"]++
		}
		if idx%100 == 9 {
			res.Sample = map[string]any{"mode": "every crash point of a tolerated-failure plan", "plan": ps, "writes": cp.NW}
		}
	}
	if len(res.Viols) > 0 {
		res.Witness = map[string]any{"plan": ps, "first": first}
	}
	return res
}

// ---------- C01 under recovery: declared order in the process that resumes a plan after a crash ----------

// c01Recovered applies the order rules to the plugin log of a recovering process; what ran before the crash is
// taken from the durable snapshot sk.
func c01Recovered(ps *spec.Plan, sk *spec.PlanView, t *oracle.Trace) []ev.Violation {
	var out []ev.Violation
	add := func(rule, disc, f string, a ...any) { out = append(out, ev.V("C01", "recovered/"+rule, disc, f, a...)) }
	const open = int(^uint(0) >> 1)
	endOf := func(inv oracle.Inv) int {
		if inv.End < 0 {
			return open
		}
		return inv.End
	}
	// blocks one at a time, in declared order
	maxEnd := map[int]int{}
	for _, inv := range t.Invs {
		if inv.Addr.Block >= 0 && endOf(inv) > maxEnd[inv.Addr.Block] {
			maxEnd[inv.Addr.Block] = endOf(inv)
		}
	}
	reported := map[string]bool{}
	for _, inv := range t.Invs {
		for i := 0; i < inv.Addr.Block; i++ {
			if me, ok := maxEnd[i]; ok && me > inv.Begin && !reported[fmt.Sprint(i, inv.Addr.Block)] {
				reported[fmt.Sprint(i, inv.Addr.Block)] = true
				add("block-overlap", "", "after the restart %s of block %d began before block %d had finished", inv.Tag, inv.Addr.Block, i)
			}
			// an earlier block that never became terminal (durably or in this process) must not be skipped
		}
	}
	for bi, b := range ps.Blocks {
		for si, s := range b.Seqs {
			for ai, a := range s.Actions {
				invs := t.Of(a.Tag)
				for k := 1; k < len(invs); k++ {
					if endOf(invs[k-1]) > invs[k].Begin {
						add("action-overlap", "", "after the restart invocation %d of %s began before invocation %d ended", invs[k].N, a.Tag, invs[k-1].N)
					}
				}
				if len(invs) == 0 || ai == 0 {
					continue
				}
				prev := s.Actions[ai-1]
				durable := sk.Status(prev.Tag) == spec.Completed
				if o := sk.Get(prev.Tag); o != nil && o.Status == spec.Running {
					if n := len(o.Attempts); n > 0 && !o.Attempts[n-1].HasErr && o.Attempts[n-1].End != 0 {
						durable = true
					}
				}
				okInLog := false
				for _, pi := range t.Of(prev.Tag) {
					if pi.End >= 0 && pi.End < invs[0].Begin && pi.Out == plug.OK {
						okInLog = true
					}
					if pi.Begin > invs[0].Begin {
						add("seq-order", "prev-after-next", "after the restart %s was invoked after %s had begun", prev.Tag, a.Tag)
					}
				}
				if !durable && !okInLog {
					add("seq-order", "prev-not-successful", "after the restart %s of B%d.S%d began although %s neither had a durable success at the crash nor succeeded before it in the new process", a.Tag, bi, si, prev.Tag)
				}
			}
		}
	}
	// post / deferred placement within the new process
	place := func(scope string, post, deferred *spec.Checks, seqIn func(oracle.Inv) bool) {
		lastSeqEnd := -1
		seqs := t.Filter(seqIn)
		for _, s := range seqs {
			if endOf(s) > lastSeqEnd {
				lastSeqEnd = endOf(s)
			}
		}
		first := func(c *spec.Checks) int {
			f := -1
			if c == nil {
				return f
			}
			for _, a := range c.Actions {
				for _, inv := range t.Of(a.Tag) {
					if f < 0 || inv.Begin < f {
						f = inv.Begin
					}
				}
			}
			return f
		}
		for name, c := range map[string]*spec.Checks{"post": post, "deferred": deferred} {
			b := first(c)
			if b < 0 {
				continue
			}
			if lastSeqEnd > b {
				add(name+"-early", scope[:1], "after the restart the %s checks of %s began while a sequence action was still executing", name, scope)
			}
			for _, s := range seqs {
				if s.Begin > b {
					add(name+"-early", scope[:1]+",seq-after", "after the restart sequence action %s began after the %s checks of %s", s.Tag, name, scope)
					break
				}
			}
		}
	}
	place("P", ps.Post, ps.Deferred, func(i oracle.Inv) bool { return i.Addr.Kind == "seq" })
	for bi := range ps.Blocks {
		bi := bi
		place(fmt.Sprintf("B%d", bi), ps.Blocks[bi].Post, ps.Blocks[bi].Deferred, func(i oracle.Inv) bool { return i.Addr.Kind == "seq" && i.Addr.Block == bi })
	}
	return out
}

func c01Crash(c *Ctx, idx int) CaseResult {
	res := CaseResult{Counters: map[string]int{}}
	r := gen.Rand(c.Seed, "C01crash", idx)
	g := gen.Base()
	g.MaxBlocks, g.MaxSeqs, g.MaxActions = 3, 3, 3
	// retry budgets and retryable failures: recovery has to tell "failed so far" from "succeeded"
	g.MaxRetries, g.PTransient = 2, 0.3
	g.PFailCont = 0
	g.PCont, g.PBCont = 0.2, 0.2
	g.SleepUS = [2]int{0, 1500}
	g.TailP = 0
	g.ContSleepUS = [2]int{0, 500}
	g.NoBlockDelays = true
	g.PFailSeqAction = 0.12
	ps := g.Plan(r, "p0")
	var first any
	cp := exploreCrashes(&ps, r, 1<<30, &res, func(sk *spec.PlanView, rec *crash.Recovery, t *oracle.Trace, second bool, k, j int) {
		if rec == nil || !rec.Returned {
			return
		}
		res.Counters["recoveries"]++
		vs := c01Recovered(&ps, sk, t)
		if len(vs) > 0 && first == nil {
			first = map[string]any{"k": k, "durable_state": describeSk(sk), "recovery_events": rec.Events}
		}
		res.Viols = append(res.Viols, vs...)
	})
	if cp != nil {
		res.Nontriv = hashStr(fmt.Sprint("crash", ps))
		res.ISig = res.Nontriv
		if idx%100 == 19 {
			res.Sample = map[string]any{"mode": "order rules in the process that resumes the plan, every crash point", "plan": ps, "writes": cp.NW}
		}
	}
	if len(res.Viols) > 0 {
		res.Witness = map[string]any{"plan": ps, "first": first}
	}
	return res
}

// ---------- C02 under recovery: the bound holds in the process that resumes the plan ----------

func c02Crash(c *Ctx, idx int) CaseResult {
	res := CaseResult{Counters: map[string]int{}}
	r := gen.Rand(c.Seed, "C02crash", idx)
	ps := spec.Plan{Name: "p0"}
	for bi := 0; bi < 1+r.Intn(2); bi++ {
		blk := spec.Block{Conc: r.Intn(3), Tol: -1 + r.Intn(2)*r.Intn(3)} // 0 = unset (1)
		for si := 0; si < 3+r.Intn(4); si++ {
			var sq spec.Seq
			for ai := 0; ai < 1+r.Intn(2); ai++ {
				sq.Actions = append(sq.Actions, spec.Action{Steps: step(r.Intn(8) != 0, 600+r.Intn(1500))})
			}
			blk.Seqs = append(blk.Seqs, sq)
		}
		ps.Blocks = append(ps.Blocks, blk)
	}
	ps.AssignTags()
	var first any
	cp := exploreCrashes(&ps, r, 1<<30, &res, func(sk *spec.PlanView, rec *crash.Recovery, t *oracle.Trace, second bool, k, j int) {
		if rec == nil || !rec.Returned || sk.Status("P") != spec.Running {
			return
		}
		res.Counters["recoveries"]++
		o := oracle.C02(&ps, rec.Events, t.PlanID)
		vs := o.Viols
		for i := range vs {
			vs[i].Sig = strings.Replace(vs[i].Sig, "C02/", "C02/recovered/", 1)
			vs[i].Msg = "[process that resumed the plan after a crash at write " + fmt.Sprint(k) + "] " + vs[i].Msg
		}
		if len(vs) > 0 && first == nil {
			first = map[string]any{"k": k, "durable_state": describeSk(sk), "recovery_events": rec.Events}
		}
		res.Viols = append(res.Viols, vs...)
		res.Counters["recovered_blocks_with_sequences"] += o.Blocks
	})
	if cp != nil {
		res.Nontriv = hashStr(fmt.Sprint("crash", ps))
		res.ISig = res.Nontriv
		if idx%100 == 24 {
			res.Sample = map[string]any{"mode": "concurrency bound in the process that resumes the plan, every crash point", "plan": ps, "writes": cp.NW}
		}
	}
	if len(res.Viols) > 0 {
		res.Witness = map[string]any{"plan": ps, "first": first}
	}
	return res
}

// ---------- C04 under recovery: what Wait returns in the process that resumed the plan ----------

// crashPreContPlan: a scope whose pre-checks fail (or pass slowly) while the first run of its continuous checks,
// started next to them, is still executing - at block level, plan level or both.
func crashPreContPlan(r *rand.Rand) spec.Plan {
	p := spec.Plan{Name: "p0"}
	grp := func(ok bool, lo, hi int) *spec.Checks {
		return &spec.Checks{DelayUS: 300 + r.Intn(500), Actions: []spec.Action{{Steps: step(ok, lo+r.Intn(hi-lo+1)), Retries: r.Intn(2)}}}
	}
	blk := spec.Block{Conc: 1 + r.Intn(2), Tol: 0}
	for si := 0; si < 1+r.Intn(2); si++ {
		blk.Seqs = append(blk.Seqs, spec.Seq{Actions: []spec.Action{{Steps: step(true, 300+r.Intn(600))}}})
	}
	switch r.Intn(3) {
	case 0: // block pre fails fast, block cont slow
		blk.Pre = grp(false, 50, 300)
		blk.Cont = grp(true, 900, 2500)
	case 1: // plan pre fails fast, plan cont slow
		p.Pre = grp(false, 50, 300)
		p.Cont = grp(true, 900, 2500)
	case 2: // block pre slow and passing, block cont fails fast
		blk.Pre = grp(true, 900, 2500)
		blk.Cont = grp(false, 50, 300)
	}
	if r.Intn(2) == 0 {
		blk.Deferred = grp(true, 50, 400)
	}
	if r.Intn(2) == 0 {
		p.Deferred = grp(true, 50, 400)
	}
	if r.Intn(3) == 0 {
		blk.Post = grp(true, 50, 300)
	}
	p.Blocks = append(p.Blocks, blk)
	if r.Intn(2) == 0 {
		p.Blocks = append(p.Blocks, spec.Block{Conc: 1, Tol: 0, Seqs: []spec.Seq{{Actions: []spec.Action{{Steps: step(true, 300)}}}}})
	}
	p.AssignTags()
	return p
}

// c04Crash explores every crash point of a plan with failing stages and applies the C04 consistency rules to the
// plan that Wait returns in the process that resumed it (a resumed plan is a started plan being waited on).
func c04Crash(c *Ctx, idx int) CaseResult {
	res := CaseResult{Counters: map[string]int{}}
	r := gen.Rand(c.Seed, "C04crash", idx)
	var ps spec.Plan
	var src string
	switch (idx / 25) % 3 {
	case 0:
		ps, src = crashPreContPlan(r), "pre-checks next to the first continuous run"
	case 1:
		ps, src = crashBusyPlan(r), "failure while sequences are executing"
	default:
		ps, src = crashRandPlan(r), "random"
	}
	var first any
	cp := exploreCrashes(&ps, r, 1<<30, &res, func(sk *spec.PlanView, rec *crash.Recovery, t *oracle.Trace, second bool, k, j int) {
		if rec == nil || !rec.Returned || rec.Final == nil || sk.Status("P") != spec.Running {
			return
		}
		res.Counters["recovered_waits"]++
		vs := oracle.Consistency("C04", &ps, t, rec.Final, false)
		for i := range vs {
			vs[i].Sig = strings.Replace(vs[i].Sig, "C04/", "C04/recovered/", 1)
			vs[i].Msg = "[plan resumed after a crash at write " + fmt.Sprint(k) + "] " + vs[i].Msg
		}
		if len(vs) > 0 && first == nil {
			first = map[string]any{"k": k, "durable_state": describeSk(sk), "final": rec.Final, "recovery_events": rec.Events}
		}
		res.Viols = append(res.Viols, vs...)
	})
	if cp != nil {
		res.Nontriv = hashStr(fmt.Sprint("crash", ps))
		res.ISig = res.Nontriv
		if idx%100 == 24 {
			res.Sample = map[string]any{"mode": "consistency of the plan Wait returns in the process that resumed it, every crash point", "source": src, "plan": ps, "writes": cp.NW}
		}
	}
	if len(res.Viols) > 0 {
		res.Witness = map[string]any{"plan": ps, "first": first}
	}
	return res
}

// ---------- C06 under recovery: a gate that was durably decided stays decided ----------

// crashGatePlan: scopes whose bypass / pre / continuous gate is decided (failed or passed) while the other gating
// group is still executing; in most of the plans the checks that failed before the crash pass after the restart
// (Steps2) - a durable decision must not be taken again.
func crashGatePlan(r *rand.Rand, variant int) spec.Plan {
	p := spec.Plan{Name: "p0"}
	// the variant enumerates level x gate situation, so that ten consecutive crash cases cover all of them
	blockLevel, gcase, heal := variant%2 == 0, (variant/2)%5, (variant/10)%3 != 2
	grp := func(ok bool, lo, hi int) *spec.Checks {
		a := spec.Action{Steps: step(ok, lo+r.Intn(hi-lo+1))}
		if heal && !ok {
			a.Steps2 = step(true, 50+r.Intn(200)) // failed before the crash, passes after the restart
		}
		return &spec.Checks{DelayUS: 300 + r.Intn(500), Actions: []spec.Action{a}}
	}
	blk := spec.Block{Conc: 1 + r.Intn(2), Tol: 0}
	for si := 0; si < 1+r.Intn(2); si++ {
		blk.Seqs = append(blk.Seqs, spec.Seq{Actions: []spec.Action{{Steps: step(true, 300+r.Intn(600))}}})
	}
	gate := func(pre, cont, bypass **spec.Checks) {
		switch gcase {
		case 0: // continuous check fails at once, pre-checks still running
			*pre = grp(true, 1200, 2500)
			*cont = grp(false, 50, 300)
		case 1: // pre-checks fail at once, first continuous run still executing
			*pre = grp(false, 50, 300)
			*cont = grp(true, 1200, 2500)
		case 2: // only a failing continuous check
			*cont = grp(false, 50, 600)
		case 3: // only failing pre-checks
			*pre = grp(false, 50, 600)
		case 4: // bypass passes
			*bypass = grp(true, 50, 600)
			if r.Intn(2) == 0 {
				*pre = grp(true, 50, 300)
			}
		}
	}
	if blockLevel {
		gate(&blk.Pre, &blk.Cont, &blk.Bypass)
	} else {
		gate(&p.Pre, &p.Cont, &p.Bypass)
	}
	if r.Intn(2) == 0 {
		blk.Deferred = &spec.Checks{DelayUS: 300, Actions: []spec.Action{{Steps: step(true, 50+r.Intn(300))}}}
	}
	if r.Intn(2) == 0 {
		p.Deferred = &spec.Checks{DelayUS: 300, Actions: []spec.Action{{Steps: step(true, 50+r.Intn(300))}}}
	}
	p.Blocks = append(p.Blocks, blk)
	if r.Intn(2) == 0 {
		p.Blocks = append(p.Blocks, spec.Block{Conc: 1, Tol: 0, Seqs: []spec.Seq{{Actions: []spec.Action{{Steps: step(true, 300)}}}}})
	}
	p.AssignTags()
	return p
}

// gateRecovered: the C06 rules on (durable state at the crash, what the recovering process did, final plan).
func gateRecovered(ps *spec.Plan, sk, fp *spec.PlanView, t *oracle.Trace) []ev.Violation {
	var out []ev.Violation
	add := func(rule, disc, f string, a ...any) { out = append(out, ev.V("C06", "recovered/"+rule, disc, f, a...)) }
	scope := func(name string, blocks []int, hasPre, hasCont, hasBypass bool) {
		inScope := func(inv oracle.Inv) bool {
			if name == "P" {
				return true
			}
			return inv.Addr.Block == blocks[0]
		}
		seqStarted := false
		for _, bi := range blocks {
			for si := range ps.Blocks[bi].Seqs {
				if sk.Status(fmt.Sprintf("B%d.S%d", bi, si)) != spec.NotStarted {
					seqStarted = true
				}
			}
		}
		gateFailed := ""
		if hasPre && sk.Status(name+".pre") == spec.Failed {
			gateFailed = "pre"
		} else if hasCont && sk.Status(name+".cont") == spec.Failed && !seqStarted {
			gateFailed = "cont"
		}
		if hasBypass && sk.Status(name+".bypass") == spec.Completed {
			for _, inv := range t.Invs {
				if inScope(inv) && !(inv.Addr.Kind == "bypass" && inv.Addr.Scope() == name) {
					add("bypassed-scope-ran", name[:1], "the bypass checks of %s were durably Completed at the crash, yet %s was invoked after restart", name, inv.Tag)
					break
				}
			}
			return
		}
		if gateFailed == "" {
			return
		}
		for _, inv := range t.Invs {
			if inScope(inv) && inv.Addr.Kind == "seq" {
				add("gate-failed-ran", name[:1]+","+gateFailed, "the %s checks of %s were durably Failed at the crash (no sequence of the scope had started), yet sequence action %s was invoked after restart", gateFailed, name, inv.Tag)
				break
			}
		}
		if fp != nil && fp.Status(name) != spec.Failed {
			add("gate-failed-status", name[:1]+","+gateFailed+","+stName(fp.Status(name)), "the %s checks of %s were durably Failed at the crash, yet %s ended %s", gateFailed, name, name, stName(fp.Status(name)))
		}
	}
	all := make([]int, len(ps.Blocks))
	for i := range all {
		all[i] = i
	}
	scope("P", all, ps.Pre != nil, ps.Cont != nil, ps.Bypass != nil)
	for bi := range ps.Blocks {
		b := &ps.Blocks[bi]
		scope(fmt.Sprintf("B%d", bi), []int{bi}, b.Pre != nil, b.Cont != nil, b.Bypass != nil)
	}
	return out
}

func c06Crash(c *Ctx, idx int) CaseResult {
	res := CaseResult{Counters: map[string]int{}}
	r := gen.Rand(c.Seed, "C06crash", idx)
	ps := crashGatePlan(r, (idx-486)/15)
	var first any
	cp := exploreCrashes(&ps, r, 1<<30, &res, func(sk *spec.PlanView, rec *crash.Recovery, t *oracle.Trace, second bool, k, j int) {
		if rec == nil || !rec.Returned || rec.Final == nil || sk.Status("P") != spec.Running {
			return
		}
		res.Counters["recovered_gates"]++
		vs := gateRecovered(&ps, sk, rec.Final, t)
		if len(vs) > 0 && first == nil {
			first = map[string]any{"k": k, "durable_state": describeSk(sk), "final": rec.Final, "recovery_events": rec.Events}
		}
		res.Viols = append(res.Viols, vs...)
	})
	if cp != nil {
		res.Nontriv = hashStr(fmt.Sprint("crash", ps))
		res.ISig = res.Nontriv
		if idx%200 == 49 {
			res.Sample = map[string]any{"mode": "gates decided before a crash stay decided after the restart, every crash point", "plan": ps, "writes": cp.NW}
		}
	}
	if len(res.Viols) > 0 {
		res.Witness = map[string]any{"plan": ps, "first": first}
	}
	return res
}

// ---------- C07 under recovery: deferred checks still run, a recorded continuous failure still fails the scope ----------

func c07Crash(c *Ctx, idx int) CaseResult {
	res := CaseResult{Counters: map[string]int{}}
	r := gen.Rand(c.Seed, "C07crash", idx)
	var ps spec.Plan
	switch (idx / 40) % 3 {
	case 0:
		ps = crashPreContPlan(r)
	case 1:
		ps = crashBusyPlan(r)
	default:
		ps = crashRandPlan(r)
	}
	// every scope that can be entered gets deferred checks
	dg := func() *spec.Checks {
		return &spec.Checks{DelayUS: 300, Actions: []spec.Action{{Steps: step(r.Intn(5) != 0, 50+r.Intn(400))}}}
	}
	if ps.Deferred == nil {
		ps.Deferred = dg()
	}
	for bi := range ps.Blocks {
		if ps.Blocks[bi].Deferred == nil && r.Intn(3) != 0 {
			ps.Blocks[bi].Deferred = dg()
		}
	}
	ps.AssignTags()
	var first any
	cp := exploreCrashes(&ps, r, 1<<30, &res, func(sk *spec.PlanView, rec *crash.Recovery, t *oracle.Trace, second bool, k, j int) {
		if rec == nil || !rec.Returned || rec.Final == nil || sk.Status("P") != spec.Running {
			return
		}
		res.Counters["recovered_scopes"]++
		fp := rec.Final
		var vs []ev.Violation
		add := func(rule, disc, f string, a ...any) { vs = append(vs, ev.V("C07", "recovered/"+rule, disc, f, a...)) }
		chk := func(scope string, d, cont, bypass *spec.Checks) {
			if fp.Status(scope) == spec.NotStarted || (bypass != nil && fp.Status(scope+".bypass") == spec.Completed) {
				return
			}
			if d != nil {
				if st := fp.Status(scope + ".deferred"); !isTerminal(st) {
					add("deferred-not-run", scope[:1]+","+stName(fp.Status(scope)), "%s was entered and not bypassed (final %s) but its deferred checks are %s after recovery; durable state at the crash: %s", scope, stName(fp.Status(scope)), stName(st), describeSk(sk))
				} else {
					runs := 0
					for _, inv := range t.Invs {
						if inv.Tag == d.Actions[0].Tag && inv.N == 1 {
							runs++
						}
					}
					if runs > 1 {
						add("deferred-twice", scope[:1], "the deferred checks of %s were started %d times in the recovering process", scope, runs)
					}
				}
			}
			if cont != nil && sk.Status(scope+".cont") == spec.Failed && fp.Status(scope) != spec.Failed {
				add("cont-failure-lost", scope[:1]+","+stName(fp.Status(scope)), "a continuous check of %s was durably Failed at the crash, yet %s ended %s", scope, scope, stName(fp.Status(scope)))
			}
		}
		chk("P", ps.Deferred, ps.Cont, ps.Bypass)
		for bi := range ps.Blocks {
			b := &ps.Blocks[bi]
			chk(fmt.Sprintf("B%d", bi), b.Deferred, b.Cont, b.Bypass)
		}
		if len(vs) > 0 && first == nil {
			first = map[string]any{"k": k, "durable_state": describeSk(sk), "final": fp, "recovery_events": rec.Events}
		}
		res.Viols = append(res.Viols, vs...)
	})
	if cp != nil {
		res.Nontriv = hashStr(fmt.Sprint("crash", ps))
		res.ISig = res.Nontriv
		if idx%200 == 39 {
			res.Sample = map[string]any{"mode": "deferred checks and recorded continuous failures across a crash, every crash point", "plan": ps, "writes": cp.NW}
		}
	}
	if len(res.Viols) > 0 {
		res.Witness = map[string]any{"plan": ps, "first": first}
	}
	return res
}

// ---------- C05 under recovery: the call budget and the attempt record across a crash ----------

func c05Crash(c *Ctx, idx int) CaseResult {
	res := CaseResult{Counters: map[string]int{}}
	r := gen.Rand(c.Seed, "C05crash", idx)
	// strictly sequential plan (no concurrent writers: the k-th write event of the uninterrupted log is the k-th
	// captured statement) with retry budgets and transient failures
	ps := seqPlan(r)
	for bi := range ps.Blocks {
		for si := range ps.Blocks[bi].Seqs {
			for ai := range ps.Blocks[bi].Seqs[si].Actions {
				a := &ps.Blocks[bi].Seqs[si].Actions[ai]
				a.Retries = r.Intn(4)
				a.Steps = nil
				for k := 0; k < r.Intn(a.Retries+2); k++ {
					a.Steps = append(a.Steps, plug.Step{Out: plug.Transient, SleepUS: r.Intn(400)})
				}
				final := plug.OK
				if r.Intn(5) == 0 {
					final = plug.Permanent
				}
				a.Steps = append(a.Steps, plug.Step{Out: final, SleepUS: r.Intn(400)})
			}
		}
		ps.Blocks[bi].Tol = -1
	}
	ps.AssignTags()
	retries := map[string]int{}
	for _, b := range ps.Blocks {
		for _, s := range b.Seqs {
			for _, a := range s.Actions {
				retries[a.Tag] = a.Retries
			}
		}
	}
	var begunBefore []map[string]int // index k: begins per tag before the k-th write of the uninterrupted run
	var first any
	var cpRef *crash.Captured
	var pending []func()
	cp := exploreCrashes(&ps, r, 1<<30, &res, func(sk *spec.PlanView, rec *crash.Recovery, t *oracle.Trace, second bool, k, j int) {
		if rec == nil || !rec.Returned || rec.Final == nil {
			return
		}
		pending = append(pending, func() {
			if begunBefore == nil {
				cur := map[string]int{}
				snap := func() map[string]int {
					m := map[string]int{}
					for k, v := range cur {
						m[k] = v
					}
					return m
				}
				begunBefore = append(begunBefore, snap())
				for _, e := range cpRef.Events {
					switch e.Kind {
					case "begin":
						cur[e.Tag]++
					case "end":
						cur["ended:"+e.Tag]++
					case "write":
						begunBefore = append(begunBefore, snap())
					}
				}
			}
			res.Counters["recoveries"]++
			for tag, R := range retries {
				o := sk.Get(tag)
				fo := rec.Final.Get(tag)
				if o == nil || fo == nil {
					continue
				}
				m := len(t.Of(tag))
				nAtt := len(o.Attempts)
				var vs []ev.Violation
				if o.Status == spec.Running || o.Status == spec.NotStarted {
					if m > max(0, R+1-nAtt) {
						vs = append(vs, ev.V("C05", "recovered/budget-ignores-durable-attempts", "", "action %s (Retries %d) had %d durable attempts at crash point %d, yet it was invoked %d more times after the restart", tag, R, nAtt, k, m))
					}
					if k < len(begunBefore) {
						// a crash right after write k: b calls had begun, inflight of them had not returned yet (only
						// those may legitimately be made again)
						b := begunBefore[k][tag]
						inflight := b - begunBefore[k]["ended:"+tag]
						if b+m > R+1+inflight {
							vs = append(vs, ev.V("C05", "recovered/too-many-calls", "", "action %s (Retries %d) had been invoked %d times (%d still in flight, %d attempts durable) when the process died right after write %d, and was invoked %d more times after the restart: more than Retries+1 calls", tag, R, b, inflight, nAtt, k, m))
						}
					}
					if (fo.Status == spec.Completed || fo.Status == spec.Failed) && len(fo.Attempts) != nAtt+m {
						vs = append(vs, ev.V("C05", "recovered/attempt-count", cmp(len(fo.Attempts), nAtt+m), "action %s: %d durable attempts at crash point %d plus %d invocations after the restart, but %d attempts are recorded in the end", tag, nAtt, k, m, len(fo.Attempts)))
					}
				}
				if len(vs) > 0 && first == nil {
					first = map[string]any{"k": k, "durable_state": describeSk(sk), "final": rec.Final, "recovery_events": rec.Events}
				}
				res.Viols = append(res.Viols, vs...)
			}
		})
	})
	if cp != nil {
		cpRef = cp
		for _, f := range pending {
			f()
		}
		res.Nontriv = hashStr(fmt.Sprint("crash", ps))
		res.ISig = res.Nontriv
		if idx%50 == 9 {
			res.Sample = map[string]any{"mode": "call budget and attempt record across every crash point of a sequential plan with retries", "plan": ps, "writes": cp.NW}
		}
	}
	if len(res.Viols) > 0 {
		res.Witness = map[string]any{"plan": ps, "first": first}
	}
	return res
}

func cmp(a, b int) string {
	switch {
	case a < b:
		return "<"
	case a > b:
		return ">"
	}
	return "="
}

// ---------- C08 under recovery: no visible regress in the process that resumes a plan ----------

// c08Crash explores every crash point of a plan and applies "a block, sequence or sequence action that was read as
// Completed or Failed is never later read in another status" to the process that resumes it: a reader polling from
// the moment that process comes up first reads the durable state at the crash and then whatever the process writes,
// so every write of a finished block / sequence / sequence action with another status is a visible regress.
func c08Crash(c *Ctx, idx int) CaseResult {
	res := CaseResult{Counters: map[string]int{}}
	r := gen.Rand(c.Seed, "C08crash", idx)
	g := gen.Base()
	g.MaxBlocks, g.MaxSeqs, g.MaxActions = 2, 4, 2
	g.MaxRetries, g.PTransient = 1, 0.2
	g.PFailCont = 0
	g.PCont, g.PBCont = 0.15, 0.15
	g.SleepUS = [2]int{0, 1500}
	g.TailP = 0
	g.ContSleepUS = [2]int{0, 500}
	g.NoBlockDelays = true
	g.PFailSeqAction = 0.15
	g.Tols = []int{-1, 1, 2}
	g.Concs = []int{1, 2, 3}
	ps := g.Plan(r, "p0")
	var first any
	cp := exploreCrashes(&ps, r, 1<<30, &res, func(sk *spec.PlanView, rec *crash.Recovery, t *oracle.Trace, second bool, k, j int) {
		if rec == nil || !rec.Returned {
			return
		}
		res.Counters["recoveries"]++
		byID := map[string]*spec.ObjView{}
		seen := map[string]int{}
		for i := range sk.Objs {
			o := &sk.Objs[i]
			byID[o.ID] = o
			if isTerminal(o.Status) {
				seen[o.ID] = o.Status
			}
		}
		for _, w := range t.Writes {
			o := byID[w.ObjID]
			if o == nil || o.Kind == "checks" || o.Kind == "plan" || (o.Kind == "action" && !strings.Contains(o.Addr, ".S")) {
				continue
			}
			if st, was := seen[w.ObjID]; was && w.Status != st {
				res.Viols = append(res.Viols, ev.V("C08", "recovered/regress", o.Kind+","+stName(st)+"->"+stName(w.Status), "%s %s could be read as %s when the resuming process came up (crash point %d) and was then written as %s", o.Kind, o.Addr, stName(st), k, stName(w.Status)))
				if first == nil {
					first = map[string]any{"k": k, "durable_state": describeSk(sk), "recovery_events": rec.Events}
				}
				break
			}
			if isTerminal(w.Status) {
				seen[w.ObjID] = w.Status
			}
		}
	})
	if cp != nil {
		res.Nontriv = hashStr(fmt.Sprint("crash", ps))
		res.ISig = res.Nontriv
		if idx%100 == 29 {
			res.Sample = map[string]any{"mode": "no visible regress in the process that resumes the plan, every crash point", "plan": ps, "writes": cp.NW}
		}
	}
	if len(res.Viols) > 0 {
		res.Witness = map[string]any{"plan": ps, "first": first}
	}
	return res
}
