package checks

import (
	"fmt"
	"time"

	"github.com/element-of-surprise/coercion"
	"github.com/element-of-surprise/coercion/workflow"
	"github.com/element-of-surprise/coercion/workflow/context"
	"github.com/element-of-surprise/coercion/workflow/utils/walk"
	"github.com/google/uuid"

	"verifharness/internal/crash"
	"verifharness/internal/eng"
	"verifharness/internal/ev"
	"verifharness/internal/gen"
	"verifharness/internal/plug"
	"verifharness/internal/rec"
	"verifharness/internal/spec"
)

type c11Plan struct {
	class string // never-started completed failed running-fresh running-stale
	cap   *crash.Captured
	k     int
	shift time.Duration
	// mixed: every object is older than the maximum except one PRNG-chosen object, which is `shift` old
	mixed   bool
	keepSel int
}

type stateGetter interface{ GetState() *workflow.State }

// shiftPlan moves every non-zero state time of the stored plan into the past through the vault's own Update* calls.
// With keepSel >= 0 one object (the keepSel-th, modulo their number, of the objects that carry a time at all) is moved
// by keepD instead: the plan's most recent recorded activity is then that one object's, wherever it sits in the walk.
func shiftPlan(ctx context.Context, rs *crash.Restored, id uuid.UUID, d time.Duration, keepSel int, keepD time.Duration) error {
	p, err := rs.Vault.Read(ctx, id)
	if err != nil {
		return err
	}
	timed := 0
	for it := range walk.Plan(p) {
		st := it.Value.(stateGetter).GetState()
		if !st.Start.IsZero() || !st.End.IsZero() {
			timed++
		}
	}
	n := -1
	for it := range walk.Plan(p) {
		st := it.Value.(stateGetter).GetState()
		d := d
		if !st.Start.IsZero() || !st.End.IsZero() {
			n++
			if keepSel >= 0 && timed > 0 && n == keepSel%timed {
				d = keepD
			}
		}
		if !st.Start.IsZero() {
			st.Start = st.Start.Add(-d)
		}
		if !st.End.IsZero() {
			st.End = st.End.Add(-d)
		}
		switch it.Value.Type() {
		case workflow.OTPlan:
			err = rs.Vault.UpdatePlan(ctx, it.Plan())
		case workflow.OTBlock:
			err = rs.Vault.UpdateBlock(ctx, it.Block())
		case workflow.OTCheck:
			err = rs.Vault.UpdateChecks(ctx, it.Checks())
		case workflow.OTSequence:
			err = rs.Vault.UpdateSequence(ctx, it.Sequence())
		case workflow.OTAction:
			err = rs.Vault.UpdateAction(ctx, it.Action())
		}
		if err != nil {
			return err
		}
	}
	return nil
}

func c11Run(c *Ctx, idx int) CaseResult {
	ctx := context.Background()
	r := gen.Rand(c.Seed, "C11", idx)
	res := CaseResult{Counters: map[string]int{}}
	add := func(rule, disc, f string, a ...any) { res.Viols = append(res.Viols, ev.V("C11", rule, disc, f, a...)) }

	// configuration
	type cfg struct {
		name string
		d    time.Duration
		opt  []coercion.Option
	}
	cfgs := []cfg{
		{"max=1m", time.Minute, []coercion.Option{coercion.WithMaxLastUpdate(time.Minute)}},
		{"max=default(30m)", 30 * time.Minute, nil},
		{"max=2h", 2 * time.Hour, []coercion.Option{coercion.WithMaxLastUpdate(2 * time.Hour)}},
		{"no-recovery", 30 * time.Minute, []coercion.Option{coercion.WithNoRecovery()}},
	}
	cf := cfgs[idx%len(cfgs)]
	noRecovery := cf.name == "no-recovery"

	// plans
	classes := []string{"never-started", "completed", "failed", "running-fresh", "running-stale"}
	n := 3 + r.Intn(6)
	var plans []c11Plan
	for i := 0; i < n; i++ {
		class := classes[i%len(classes)]
		if i >= len(classes) {
			class = classes[r.Intn(len(classes))]
		}
		// every third store is stale-heavy: several stale Running plans next to each other in search order
		if idx%3 == 0 && i >= 2 && r.Intn(10) < 7 {
			class = "running-stale"
		}
		var ps spec.Plan
		for try := 0; ; try++ {
			ps = crashRandPlan(r)
			ps.Name = fmt.Sprintf("p%d", i)
			ps.AssignTags()
			f := expectedFailed(&ps)
			if hasFailingCont(&ps) {
				continue
			}
			if class == "failed" && !f && try < 50 {
				continue
			}
			if class == "completed" && f && try < 50 {
				continue
			}
			break
		}
		cp, err := crash.RunCaptured(&ps, 20*time.Second)
		if err != nil {
			res.Verdict = "inconclusive"
			res.Note = "uninterrupted run: " + err.Error()
			return res
		}
		pl := c11Plan{class: class, cap: cp}
		switch class {
		case "never-started":
			pl.k = 0
		case "completed", "failed":
			pl.k = cp.NW
			want := spec.Completed
			if class == "failed" {
				want = spec.Failed
			}
			if cp.Ref.Status("P") != want {
				pl.class = map[int]string{spec.Completed: "completed", spec.Failed: "failed"}[cp.Ref.Status("P")]
			}
		default:
			// a reachable Running state: a prefix in the middle
			pl.k = 1 + r.Intn(max(1, cp.NW-2))
			if class == "running-stale" {
				ages := []time.Duration{cf.d + time.Minute, 10 * cf.d}
				pl.shift = ages[r.Intn(len(ages))]
			} else {
				ages := []time.Duration{0, cf.d - time.Minute}
				pl.shift = ages[r.Intn(len(ages))]
				if pl.shift < 0 {
					pl.shift = 0
				}
				if r.Intn(2) == 0 {
					pl.mixed, pl.keepSel = true, r.Intn(1000)
				}
			}
		}
		plans = append(plans, pl)
	}
	var layers []crash.Layer
	for _, pl := range plans {
		layers = append(layers, crash.Layer{Cap: pl.cap.Cap, K: pl.k})
	}
	rs, err := crash.Restore(layers, nil)
	if err != nil {
		res.Verdict = "inconclusive"
		res.Note = "restore: " + err.Error()
		return res
	}
	before := map[string]*spec.PlanView{}
	for i := range plans {
		pl := &plans[i]
		if pl.mixed {
			// "most recent recorded activity" is a maximum over all objects: one recent object keeps the plan alive
			if err := shiftPlan(ctx, rs, pl.cap.ID, cf.d+10*time.Minute, pl.keepSel, pl.shift); err != nil {
				res.Verdict = "inconclusive"
				res.Note = "shift: " + err.Error()
				return res
			}
			res.Counters["fresh_mixed_age"]++
		} else if pl.shift > 0 {
			if err := shiftPlan(ctx, rs, pl.cap.ID, pl.shift, -1, 0); err != nil {
				res.Verdict = "inconclusive"
				res.Note = "shift: " + err.Error()
				return res
			}
		}
		v, err := rs.Snapshot(pl.cap.ID)
		if err != nil {
			res.Verdict = "inconclusive"
			res.Note = "snapshot: " + err.Error()
			return res
		}
		before[pl.cap.ID.String()] = v
		// a prefix may not be Running after all (k landed before the first Running write or at the very end)
		if (pl.class == "running-fresh" || pl.class == "running-stale") && v.Status("P") != spec.Running {
			switch v.Status("P") {
			case spec.NotStarted:
				pl.class = "never-started"
			case spec.Completed:
				pl.class = "completed"
			case spec.Failed:
				pl.class = "failed"
			}
		}
		res.Counters["plans_"+pl.class]++
	}

	rv := rec.New(rs.Vault, rs.Log, r.Int63(), 0)
	ws, err := coercion.New(ctx, rs.Reg, rv, cf.opt...)
	if err != nil {
		add("new-failed", "", "coercion.New failed on a store with plans in assorted states: %v", err)
		return res
	}
	newSeq := rs.Log.Append(plug.Event{Kind: "mark", API: "New returned"})
	_ = newSeq

	// stale plans: state right after New returned
	afterNew := map[string]*spec.PlanView{}
	for _, pl := range plans {
		if pl.class == "running-stale" && !noRecovery {
			v, err := rs.Snapshot(pl.cap.ID)
			if err == nil {
				afterNew[pl.cap.ID.String()] = v
			}
		}
	}
	// fresh running plans must reach a terminal state
	for _, pl := range plans {
		if pl.class != "running-fresh" || noRecovery {
			continue
		}
		p, _, ok := eng.WaitPlan(ws, pl.cap.ID, 20*time.Second)
		if !ok {
			add("fresh-running-not-finished", "", "a Running plan with recent activity (shift %v, max %s) was not driven to a terminal state within the watchdog", pl.shift, cf.name)
			continue
		}
		if p == nil || p.State == nil || (p.State.Status != workflow.Completed && p.State.Status != workflow.Failed) {
			st := workflow.Status(-1)
			if p != nil && p.State != nil {
				st = p.State.Status
			}
			add("fresh-running-not-terminal", fmt.Sprint(st), "a Running plan with recent activity ended %v (max %s, age %v)", st, cf.name, pl.shift)
		} else if p.Reason == workflow.FRExceedRecovery {
			add("fresh-running-aged-out", cf.name+map[bool]string{true: ",one-recent-object", false: ""}[pl.mixed], "a Running plan whose last activity is %v old was closed as ExceedRecovery although the maximum is %s (mixed ages: %v)", pl.shift, cf.name, pl.mixed)
		}
		res.Counters["fresh_resumed"]++
	}
	eng.Quiesce(rs.Log, 25*time.Millisecond, 10*time.Second)
	events := rs.Log.Snapshot()
	res.Events = len(events)
	writes := map[string]int{}
	begins := map[string]int{}
	// plugin events are attributed by the logical plan name carried in the request: recovery runs some sequences
	// on context.Background(), where the plugin sees no plan id
	idOfName := map[string]string{}
	for _, pl := range plans {
		idOfName[pl.cap.Spec.Name] = pl.cap.ID.String()
	}
	for _, e := range events {
		switch e.Kind {
		case "write", "create", "delete":
			writes[e.PlanID]++
		case "begin":
			if id, ok := idOfName[e.Plan]; ok {
				begins[id]++
			} else {
				begins[e.PlanID]++
			}
		}
	}
	for _, pl := range plans {
		id := pl.cap.ID.String()
		after, err := rs.Snapshot(pl.cap.ID)
		if err != nil {
			add("unreadable-after", pl.class, "plan (%s) cannot be read after New: %v", pl.class, err)
			continue
		}
		untouched := func(why string) {
			if eq, diff := spec.Equal(before[id], after); !eq {
				add("modified", why, "a %s plan was modified by start-up (%s): %s", pl.class, cf.name, diff)
			}
			if writes[id] > 0 {
				add("written", why, "a %s plan received %d storage writes at start-up (%s)", pl.class, writes[id], cf.name)
			}
			if begins[id] > 0 {
				add("executed", why, "a %s plan had %d plugin invocations after start-up (%s)", pl.class, begins[id], cf.name)
			}
		}
		switch {
		case noRecovery:
			untouched("no-recovery," + pl.class)
		case pl.class == "never-started" || pl.class == "completed" || pl.class == "failed":
			untouched(pl.class)
		case pl.class == "running-stale":
			v := afterNew[id]
			if v == nil {
				v = after
			}
			if v.Status("P") != spec.Failed || v.Reason != int(workflow.FRExceedRecovery) {
				add("stale-not-closed", fmt.Sprintf("status=%s,reason=%d", stName(v.Status("P")), v.Reason), "a Running plan whose last activity is %v old (max %s) is %s with reason %d when New returned; want Failed/ExceedRecovery", pl.shift, cf.name, stName(v.Status("P")), v.Reason)
			}
			for _, o := range after.Objs {
				if o.Status == spec.Running {
					add("stale-left-running", o.Kind, "stale plan closed at start-up still has %s %s Running in storage", o.Kind, o.Addr)
					break
				}
			}
			if begins[id] > 0 {
				add("stale-executed", "", "a stale Running plan had %d plugin invocations", begins[id])
			}
			// Wait must not find a running execution: it returns at once with the stored plan
			if _, _, ok := eng.WaitPlan(ws, pl.cap.ID, 5*time.Second); !ok {
				add("stale-resumed", "", "Wait on a stale plan blocks: an execution was registered for it")
			}
			res.Counters["stale_closed"]++
		}
	}
	var shape []string
	for _, pl := range plans {
		shape = append(shape, fmt.Sprintf("%s:%d/%d:%v", pl.class, pl.k, pl.cap.NW, pl.shift))
	}
	res.Nontriv = hashStr(fmt.Sprint(cf.name, shape))
	res.ISig = res.Nontriv
	if idx < 4 {
		res.Sample = map[string]any{"config": cf.name, "plans": shape}
	}
	if len(res.Viols) > 0 {
		res.Witness = map[string]any{"config": cf.name, "plans": shape, "events": events}
	}
	return res
}

func init() {
	register(&Prop{
		ID: "C11", Level: "exploration", Batch: 4, PerCaseTimeout: 120 * time.Second,
		Rule:          "case i = one store with 3-8 plans (every third store stale-heavy: several stale Running plans adjacent in search order): never started, Completed, Failed, Running with recent activity (a reachable write-prefix state), Running with every state time shifted into the past by {max+1min, 10*max} through the vault's Update* calls; configuration i mod 4 in {WithMaxLastUpdate(1 min), default 30 min, 2 h, WithNoRecovery}; fresh ages {0, max-1min}, in half of the fresh plans every object is max+10min old except one PRNG-chosen object (anywhere in the walk) that carries the fresh age; a recording vault and the scripted plugins observe writes and invocations per plan; every 24th case is a cosmosdb crash case: a process dies between two client writes (in particular between the plan document and its search entry, in either order) and after the next start-up every plan whose document was not Running is exactly as it was (no invocation, no status or time changed); distinct by (configuration, per-plan class/prefix/age)",
		Cases:         nCases(48, 1200),
		Run:           everyNth(24, cosmosFor("C11"), c11Run),
		RaceAttr:      raceHas("execute.(*recover)", "execute.runningToFailed", "execute.lastUpdate"),
		MinNontrivial: 30,
		Assumptions:   []string{"ages are chosen one minute away from the configured maximum (the SUT compares against time.Now()); equality at the boundary is not explored", "sqlite only"},
	})
}
