package checks

import (
	"fmt"
	"math/rand"
	"sync"
	"time"

	"github.com/element-of-surprise/coercion"
	"github.com/element-of-surprise/coercion/workflow/context"
	"github.com/google/uuid"

	"verifharness/internal/eng"
	"verifharness/internal/ev"
	"verifharness/internal/gen"
	"verifharness/internal/plug"
	"verifharness/internal/spec"
)

// okPlan: all-success, no-retry plan with small latencies.
func okPlan(r *rand.Rand, name string) spec.Plan { return okPlanN(r, name, 2) }

// okPlanN: at most maxActions actions per sequence (1 on the cosmosdb fake, which does not keep action order).
func okPlanN(r *rand.Rand, name string, maxActions int) spec.Plan {
	p := spec.Plan{Name: name}
	chk := func() *spec.Checks {
		return &spec.Checks{DelayUS: 500 + r.Intn(1500), Actions: []spec.Action{{Steps: []plug.Step{{Out: plug.OK, SleepUS: r.Intn(1500)}}}}}
	}
	if r.Intn(3) == 0 {
		p.Pre = chk()
	}
	if r.Intn(4) == 0 {
		p.Cont = chk()
	}
	if r.Intn(3) == 0 {
		p.Post = chk()
	}
	if r.Intn(3) == 0 {
		p.Deferred = chk()
	}
	for b := 0; b < 1+r.Intn(2); b++ {
		blk := spec.Block{Conc: 1 + r.Intn(3), Tol: 0}
		if r.Intn(4) == 0 {
			blk.Pre = chk()
		}
		if r.Intn(4) == 0 {
			blk.Deferred = chk()
		}
		for s := 0; s < 1+r.Intn(3); s++ {
			var sq spec.Seq
			for a := 0; a < 1+r.Intn(maxActions); a++ {
				sq.Actions = append(sq.Actions, spec.Action{Steps: []plug.Step{{Out: plug.OK, SleepUS: 500 + r.Intn(2500)}}})
			}
			blk.Seqs = append(blk.Seqs, sq)
		}
		p.Blocks = append(p.Blocks, blk)
	}
	p.AssignTags()
	return p
}

type apiCall struct {
	Client  int    `json:"client"`
	Op      string `json:"op"`
	IDClass string `json:"id_class"`
	ID      string `json:"id"`
	CallSeq int    `json:"call_seq"`
	RetSeq  int    `json:"ret_seq"`
	Err     string `json:"err,omitempty"`
	Note    string `json:"note,omitempty"`
}

type c12Env struct {
	env   *eng.Env
	mu    sync.Mutex
	calls []apiCall
	specs map[string]*spec.Plan // plan id -> spec
	ids   []uuid.UUID           // submitted ids
	del   []uuid.UUID           // deleted ids
	// cancelStart: Start is called with a context that is cancelled as soon as Start has returned (the usual
	// `ctx, cancel := ...; defer cancel()` caller; documented not to stop the execution)
	cancelStart bool
	maxActions  int
}

func (e *c12Env) record(c apiCall) {
	e.mu.Lock()
	e.calls = append(e.calls, c)
	e.mu.Unlock()
}

func (e *c12Env) submit(ctx context.Context, r *rand.Rand, client int) (uuid.UUID, error) {
	e.mu.Lock()
	name := fmt.Sprintf("p%d", len(e.specs))
	ma := e.maxActions
	if ma == 0 {
		ma = 2
	}
	ps := okPlanN(r, name, ma)
	e.mu.Unlock()
	cs := e.env.Log.Append(plug.Event{Kind: "call", API: "Submit", Client: client})
	id, err := e.env.WS.Submit(ctx, ps.Build())
	rs := e.env.Log.Append(plug.Event{Kind: "ret", API: "Submit", Client: client, PlanID: id.String(), Err: errStr(err)})
	e.record(apiCall{Client: client, Op: "Submit", ID: id.String(), CallSeq: cs, RetSeq: rs, Err: errStr(err)})
	if err == nil {
		e.mu.Lock()
		e.specs[id.String()] = &ps
		e.ids = append(e.ids, id)
		e.mu.Unlock()
	}
	return id, err
}

func errStr(err error) string {
	if err == nil {
		return ""
	}
	s := err.Error()
	if len(s) > 200 {
		s = s[:200]
	}
	return s
}

func (e *c12Env) start(ctx context.Context, id uuid.UUID, class string, client int) error {
	cs := e.env.Log.Append(plug.Event{Kind: "call", API: "Start", Client: client, PlanID: id.String()})
	sctx := ctx
	if e.cancelStart {
		var cancel context.CancelFunc
		sctx, cancel = context.WithCancel(ctx)
		defer cancel()
	}
	err := e.env.WS.Start(sctx, id)
	rs := e.env.Log.Append(plug.Event{Kind: "ret", API: "Start", Client: client, PlanID: id.String(), Err: errStr(err)})
	e.record(apiCall{Client: client, Op: "Start", IDClass: class, ID: id.String(), CallSeq: cs, RetSeq: rs, Err: errStr(err)})
	return err
}

func (e *c12Env) other(ctx context.Context, op string, id uuid.UUID, class string, client int) {
	cs := e.env.Log.Append(plug.Event{Kind: "call", API: op, Client: client, PlanID: id.String()})
	var err error
	note := ""
	switch op {
	case "Wait":
		wctx, cancel := context.WithTimeout(ctx, 3*time.Second)
		p, werr := e.env.WS.Wait(wctx, id)
		cancel()
		err = werr
		if p != nil && werr == nil && p.State == nil {
			note = "plan without state"
		}
	case "Plan":
		_, err = e.env.WS.Plan(ctx, id)
	case "Status":
		sctx, cancel := context.WithTimeout(ctx, 200*time.Millisecond)
		n := 0
		for res := range e.env.WS.Status(sctx, id, time.Millisecond) {
			n++
			if res.Err != nil {
				err = res.Err
			}
			if n >= 3 {
				break
			}
		}
		cancel()
		note = fmt.Sprintf("%d results", n)
	}
	rs := e.env.Log.Append(plug.Event{Kind: "ret", API: op, Client: client, PlanID: id.String(), Err: errStr(err)})
	e.record(apiCall{Client: client, Op: op, IDClass: class, ID: id.String(), CallSeq: cs, RetSeq: rs, Err: errStr(err), Note: note})
}

// pickID chooses an id of the given class.
func (e *c12Env) pickID(r *rand.Rand) (uuid.UUID, string) {
	e.mu.Lock()
	defer e.mu.Unlock()
	switch k := r.Intn(10); {
	case k < 6 && len(e.ids) > 0:
		return e.ids[r.Intn(len(e.ids))], "known"
	case k == 6:
		return uuid.Nil, "nil"
	case k == 7 && len(e.del) > 0:
		return e.del[r.Intn(len(e.del))], "deleted"
	default:
		u, _ := uuid.NewV7()
		return u, "unknown"
	}
}

// finish waits for every started plan and applies the at-most-once oracle.
func (e *c12Env) finish(res *CaseResult) {
	ctx := context.Background()
	l := e.env.Log
	// wait for plans that have a successful Start
	started := map[string]bool{}
	e.mu.Lock()
	for _, c := range e.calls {
		if c.Op == "Start" && c.Err == "" {
			started[c.ID] = true
		}
	}
	e.mu.Unlock()
	for id := range started {
		_, _, ok := eng.WaitPlan(e.env.WS, uuid.MustParse(id), 20*time.Second)
		if !ok {
			res.Verdict = "inconclusive"
			res.Note = "a started plan did not finish within the watchdog (the statement does not speak about blocking)"
			return
		}
	}
	eng.Quiesce(l, 25*time.Millisecond, 10*time.Second)
	events := l.Snapshot()
	res.Events = len(events)
	begins := map[string]map[string]int{}
	for _, ev := range events {
		if ev.Kind == "begin" {
			if begins[ev.PlanID] == nil {
				begins[ev.PlanID] = map[string]int{}
			}
			begins[ev.PlanID][ev.Tag]++
		}
	}
	add := func(rule, disc, f string, a ...any) { res.Viols = append(res.Viols, ev.V("C12", rule, disc, f, a...)) }
	for id, ps := range e.specs {
		tags := allTags(ps)
		for _, tag := range tags {
			n := begins[id][tag]
			a, _ := spec.ParseTag(tag)
			if a.Kind == "cont" {
				continue // continuous checks run repeatedly by design
			}
			if n > 1 {
				add("executed-twice", a.Kind, "action %s of plan %s was invoked %d times (all-success, no-retry plan)", tag, id, n)
				break
			}
			if started[id] && n == 0 {
				add("not-executed", a.Kind, "Start returned nil for plan %s but action %s was never invoked", id, tag)
				break
			}
			if !started[id] && n > 0 {
				add("executed-without-start", a.Kind, "action %s of plan %s ran although no Start call succeeded", tag, id)
				break
			}
		}
		_ = ctx
	}
	// sequential rule: a Start called after the return of a successful Start of the same id must fail
	e.mu.Lock()
	calls := append([]apiCall(nil), e.calls...)
	e.mu.Unlock()
	firstOKRet := map[string]int{}
	for _, c := range calls {
		if c.Op == "Start" && c.Err == "" {
			if v, ok := firstOKRet[c.ID]; !ok || c.RetSeq < v {
				firstOKRet[c.ID] = c.RetSeq
			}
		}
	}
	for _, c := range calls {
		if c.Op != "Start" {
			continue
		}
		if v, ok := firstOKRet[c.ID]; ok && c.CallSeq > v && c.Err == "" {
			add("restart-accepted", "", "Start of plan %s returned nil although an earlier Start of the same plan had already returned successfully", c.ID)
		}
		if c.IDClass == "unknown" || c.IDClass == "nil" || c.IDClass == "deleted" {
			if c.Err == "" {
				add("start-missing-accepted", c.IDClass, "Start of a %s id returned nil", c.IDClass)
			}
		}
	}
}

func allTags(ps *spec.Plan) []string {
	var out []string
	addc := func(c *spec.Checks) {
		if c != nil {
			for _, a := range c.Actions {
				out = append(out, a.Tag)
			}
		}
	}
	addc(ps.Bypass)
	addc(ps.Pre)
	addc(ps.Cont)
	addc(ps.Post)
	addc(ps.Deferred)
	for _, b := range ps.Blocks {
		addc(b.Bypass)
		addc(b.Pre)
		addc(b.Cont)
		addc(b.Post)
		addc(b.Deferred)
		for _, s := range b.Seqs {
			for _, a := range s.Actions {
				out = append(out, a.Tag)
			}
		}
	}
	return out
}

func c12Run(c *Ctx, idx int) CaseResult {
	ctx := context.Background()
	r := gen.Rand(c.Seed, "C12", idx)
	res := CaseResult{Counters: map[string]int{}}
	template := idx % 6
	var opts []coercion.Option
	// stale template: the maximum and by how much the submission is older than it (a sleep only ever overshoots, so
	// the submission IS older than the maximum whatever the load; small excesses probe the comparison itself)
	staleMax := []time.Duration{100 * time.Millisecond, 300 * time.Millisecond, time.Second, 2 * time.Second}[(idx/6)%4]
	staleOver := []time.Duration{120 * time.Millisecond, 300 * time.Millisecond, 1500 * time.Millisecond}[(idx/24)%3]
	if template == 3 {
		opts = append(opts, coercion.WithMaxSubmit(staleMax))
	}
	delay := []int{0, 500, 2000}[r.Intn(3)]
	// every other start-after-completion history: the context given to Start is cancelled as soon as Start returned;
	// half of those run on the cosmosdb vault (whose writes honour the context they are given)
	cancelStart := template == 2 && (idx/6)%2 == 1
	vaultKind := ""
	if cancelStart && (idx/6)%4 == 1 {
		vaultKind = "cosmos"
		delay = 0
	}
	env, err := eng.NewEnvOn(ctx, vaultKind, r.Int63(), delay, opts...)
	if err != nil {
		res.Verdict = "inconclusive"
		res.Note = err.Error()
		return res
	}
	e := &c12Env{env: env, specs: map[string]*spec.Plan{}, cancelStart: cancelStart}
	if vaultKind == "cosmos" {
		e.maxActions = 1
		res.Counters["cancelled_start_ctx_cosmos"]++
	} else if cancelStart {
		res.Counters["cancelled_start_ctx_sqlite"]++
	}
	name := ""
	switch template {
	case 0: // racing Starts on one id
		name = "racing-start"
		id, err := e.submit(ctx, r, 0)
		if err != nil {
			res.Verdict, res.Note = "inconclusive", "submit failed: "+err.Error()
			return res
		}
		n := 2 + r.Intn(7)
		var wg sync.WaitGroup
		gate := make(chan struct{})
		for k := 0; k < n; k++ {
			wg.Add(1)
			go func(k int) {
				defer wg.Done()
				<-gate
				e.start(ctx, id, "known", k)
			}(k)
		}
		close(gate)
		wg.Wait()
		res.Counters["racers"] += n
		ok := 0
		for _, c := range e.calls {
			if c.Op == "Start" && c.Err == "" {
				ok++
			}
		}
		res.Counters[fmt.Sprintf("racing_successes_%d", min(ok, 3))]++
	case 1: // back-to-back
		name = "start-start"
		id, err := e.submit(ctx, r, 0)
		if err != nil {
			res.Verdict, res.Note = "inconclusive", "submit failed: "+err.Error()
			return res
		}
		e.start(ctx, id, "known", 0)
		for k := 0; k < 1+r.Intn(3); k++ {
			if r.Intn(2) == 0 {
				time.Sleep(time.Duration(r.Intn(3000)) * time.Microsecond)
			}
			e.start(ctx, id, "known", 0)
		}
	case 2: // start after completion
		name = "start-after-completion"
		id, err := e.submit(ctx, r, 0)
		if err != nil {
			res.Verdict, res.Note = "inconclusive", "submit failed: "+err.Error()
			return res
		}
		e.start(ctx, id, "known", 0)
		if _, _, ok := eng.WaitPlan(env.WS, id, 20*time.Second); !ok {
			res.Verdict, res.Note = "inconclusive", "plan did not finish"
			return res
		}
		eng.Quiesce(env.Log, 20*time.Millisecond, 5*time.Second)
		before := env.Log.Len()
		e.start(ctx, id, "known", 0)
		eng.Quiesce(env.Log, 20*time.Millisecond, 5*time.Second)
		for _, evn := range env.Log.Snapshot()[before:] {
			if evn.Kind == "write" || evn.Kind == "begin" {
				res.Viols = append(res.Viols, ev.V("C12", "restart-side-effect", evn.Kind, "Start on a finished plan caused a %s event (%s %s)", evn.Kind, evn.Obj, evn.Tag))
				break
			}
		}
	case 3: // stale submission
		name = "stale-start"
		id, err := e.submit(ctx, r, 0)
		if err != nil {
			res.Verdict, res.Note = "inconclusive", "submit failed: "+err.Error()
			return res
		}
		t0 := time.Now()
		time.Sleep(staleMax + staleOver)
		before := env.Log.Len()
		age := time.Since(t0)
		err = e.start(ctx, id, "known", 0)
		if err == nil {
			res.Viols = append(res.Viols, ev.V("C12", "stale-start-accepted", fmt.Sprintf("max=%v,over=%v", staleMax, staleOver), "Start succeeded on a plan submitted at least %v ago with WithMaxSubmit(%v)", age.Round(time.Millisecond), staleMax))
		}
		eng.Quiesce(env.Log, 20*time.Millisecond, 5*time.Second)
		if err != nil {
			for _, evn := range env.Log.Snapshot()[before:] {
				if evn.Kind == "write" || evn.Kind == "begin" {
					res.Viols = append(res.Viols, ev.V("C12", "stale-start-side-effect", evn.Kind, "a rejected stale Start caused a %s event", evn.Kind))
					break
				}
			}
		}
		res.Counters["stale_starts"]++
	case 4: // unknown / nil / deleted ids on every call
		name = "missing-ids"
		id, err := e.submit(ctx, r, 0)
		if err == nil {
			env.Rec.Delete(ctx, id)
			e.mu.Lock()
			e.del = append(e.del, id)
			delete(e.specs, id.String())
			e.ids = nil
			e.mu.Unlock()
		}
		u, _ := uuid.NewV7()
		for _, t := range []struct {
			id    uuid.UUID
			class string
		}{{u, "unknown"}, {uuid.Nil, "nil"}, {id, "deleted"}} {
			for _, op := range []string{"Start", "Wait", "Plan", "Status"} {
				if op == "Start" {
					e.start(ctx, t.id, t.class, 0)
				} else {
					e.other(ctx, op, t.id, t.class, 0)
				}
				res.Counters["missing_id_calls"]++
			}
		}
	default: // random concurrent programs
		name = "random-program"
		nClients := 1 + r.Intn(8)
		// a few plans up front, one of them deleted
		for k := 0; k < 1+r.Intn(3); k++ {
			e.submit(ctx, r, 0)
		}
		if r.Intn(2) == 0 {
			if id, err := e.submit(ctx, r, 0); err == nil {
				env.Rec.Delete(ctx, id)
				e.mu.Lock()
				e.del = append(e.del, id)
				delete(e.specs, id.String())
				e.ids = e.ids[:len(e.ids)-1]
				e.mu.Unlock()
			}
		}
		var wg sync.WaitGroup
		seeds := make([]int64, nClients)
		for k := range seeds {
			seeds[k] = r.Int63()
		}
		for k := 0; k < nClients; k++ {
			wg.Add(1)
			go func(k int) {
				defer wg.Done()
				cr := rand.New(rand.NewSource(seeds[k]))
				for op := 0; op < 4+cr.Intn(8); op++ {
					switch cr.Intn(8) {
					case 0:
						e.submit(ctx, cr, k)
					case 1, 2, 3:
						id, class := e.pickID(cr)
						e.start(ctx, id, class, k)
					case 4:
						id, class := e.pickID(cr)
						e.other(ctx, "Wait", id, class, k)
					case 5:
						id, class := e.pickID(cr)
						e.other(ctx, "Status", id, class, k)
					default:
						id, class := e.pickID(cr)
						e.other(ctx, "Plan", id, class, k)
					}
				}
			}(k)
		}
		wg.Wait()
		res.Counters["clients"] += nClients
	}
	res.Counters["template_"+name]++
	res.Counters["api_calls"] += len(e.calls)
	e.finish(&res)
	var ops []string
	for _, c := range e.calls {
		ops = append(ops, fmt.Sprintf("%d:%s(%s)%v", c.Client, c.Op, c.IDClass, c.Err == ""))
	}
	shape := 0
	for _, ps := range e.specs {
		shape = shape*31 + len(allTags(ps))
	}
	res.Nontriv = hashStr(fmt.Sprint(name, ops, shape))
	res.ISig = res.Nontriv
	if idx < 12 {
		res.Sample = map[string]any{"template": name, "calls": e.calls}
	}
	if len(res.Viols) > 0 {
		res.Witness = map[string]any{"template": name, "calls": e.calls, "events": env.Log.Snapshot()}
	}
	return res
}

func init() {
	register(&Prop{
		ID: "C12", Level: "exploration", Batch: 6, PerCaseTimeout: 60 * time.Second,
		Rule:            "case i by i mod 6: (0) 2-8 racing Start calls on one id behind a barrier with vault read/write delays, (1) Start;Start back-to-back, (2) Start after completion (every other one with the Start context cancelled as soon as Start returned, half of those on the cosmosdb vault: the run must go on and the process live), (3) Start of a submission older than WithMaxSubmit(d), d in {100 ms, 300 ms, 1 s, 2 s}, by at least {120 ms, 300 ms, 1.5 s} (a sleep only overshoots), (4) Start/Wait/Plan/Status on unknown, nil and deleted ids, (5) PRNG programs of 1-8 client goroutines over Submit/Start/Wait/Status/Plan on known/unknown/nil/deleted ids; all plans are all-success, no-retry; oracle: process alive, every action invoked at most once (exactly once if a Start succeeded), a Start after a successful Start's return is rejected, rejected Starts cause no write/begin; each batch of 6 histories runs in its own child process; distinct by (template, call/outcome list)",
		Cases:           nCases(120, 3000),
		Run:             c12Run,
		DiedIsViolation: true,
		RaceAttr:        raceHas("execute.(*Plans).Start", "execute.(*Plans).runPlan", "execute.(*Plans).Wait", "coercion.(*Workstream)"),
		MinNontrivial:   30,
		Assumptions: []string{"a started plan that does not finish within 20 s makes the case inconclusive (the statement does not speak about blocking)",
			"the stale-submission boundary is explored from 120 ms beyond the maximum, not at equality; 'a fresh submission can be started' is only asserted with the default maximum"},
	})
}
