package checks

import (
	"encoding/json"
	"fmt"
	"math/rand"
	"sort"
	"strings"
	"time"

	"github.com/element-of-surprise/coercion/workflow"
	"github.com/element-of-surprise/coercion/workflow/context"
	"github.com/element-of-surprise/coercion/workflow/storage"
	"github.com/element-of-surprise/coercion/workflow/storage/cosmosdb"
	"github.com/google/uuid"

	"verifharness/internal/ev"
	"verifharness/internal/gen"
	"verifharness/internal/store"
)

type rec15 struct {
	ID, Group uuid.UUID
	Name      string
	Descr     string
	Submit    time.Time
	Status    workflow.Status
	// raw search documents only: which properties the stored document actually has (a Cosmos SQL comparison with an
	// undefined property is not true)
	raw       bool
	hasSwarm  bool
	swarm     string
	hasStatus bool
}

func (r rec15) key() string {
	return fmt.Sprintf("%s|%s|%s|%s|%d|%d", r.ID, r.Group, r.Name, r.Descr, r.Submit.UnixNano(), r.Status)
}

// refFilter is the reference semantics: one of the ids AND one of the groups AND any of the statuses,
// newest submission first.
func refFilter(all []rec15, f storage.Filters, limit int) []rec15 {
	var out []rec15
	for _, r := range all {
		if len(f.ByIDs) > 0 && !containsID(f.ByIDs, r.ID) {
			continue
		}
		if len(f.ByGroupIDs) > 0 && !containsID(f.ByGroupIDs, r.Group) {
			continue
		}
		if len(f.ByStatus) > 0 {
			ok := false
			for _, s := range f.ByStatus {
				if s == r.Status {
					ok = true
				}
			}
			if !ok {
				continue
			}
		}
		out = append(out, r)
	}
	sort.SliceStable(out, func(i, j int) bool { return out[i].Submit.After(out[j].Submit) })
	if limit > 0 && len(out) > limit {
		out = out[:limit]
	}
	return out
}

func containsID(ids []uuid.UUID, id uuid.UUID) bool {
	for _, x := range ids {
		if x == id {
			return true
		}
	}
	return false
}

// drain reads a result stream behind a watchdog.
func drain(ch chan storage.Stream[storage.ListResult], d time.Duration) (out []rec15, errs []error, closed bool) {
	timer := time.NewTimer(d)
	defer timer.Stop()
	for {
		select {
		case s, ok := <-ch:
			if !ok {
				return out, errs, true
			}
			if s.Err != nil {
				errs = append(errs, s.Err)
				continue
			}
			st := workflow.Status(-1)
			if s.Result.State != nil {
				st = s.Result.State.Status
			}
			out = append(out, rec15{ID: s.Result.ID, Group: s.Result.GroupID, Name: s.Result.Name, Descr: s.Result.Descr, Submit: s.Result.SubmitTime, Status: st})
			// the watchdog is on the stream standing still, not on its total duration
			if !timer.Stop() {
				select {
				case <-timer.C:
				default:
				}
			}
			timer.Reset(d)
		case <-timer.C:
			return out, errs, false
		}
	}
}

func keysOf(rs []rec15) []string {
	var out []string
	for _, r := range rs {
		out = append(out, r.key())
	}
	return out
}

func sameOrdered(a, b []rec15) bool {
	if len(a) != len(b) {
		return false
	}
	for i := range a {
		if a[i].key() != b[i].key() {
			return false
		}
	}
	return true
}

func sameSet(a, b []rec15) bool {
	if len(a) != len(b) {
		return false
	}
	x, y := keysOf(a), keysOf(b)
	sort.Strings(x)
	sort.Strings(y)
	for i := range x {
		if x[i] != y[i] {
			return false
		}
	}
	return true
}

func describeFilter(f storage.Filters) string {
	var parts []string
	if len(f.ByIDs) > 0 {
		parts = append(parts, fmt.Sprintf("ids=%d", min(len(f.ByIDs), 2)))
	}
	if len(f.ByGroupIDs) > 0 {
		parts = append(parts, fmt.Sprintf("groups=%d", min(len(f.ByGroupIDs), 2)))
	}
	if len(f.ByStatus) > 0 {
		parts = append(parts, fmt.Sprintf("statuses=%d", min(len(f.ByStatus), 2)))
	}
	return strings.Join(parts, ",")
}

var allStatuses = []workflow.Status{workflow.NotStarted, workflow.Running, workflow.Completed, workflow.Failed, workflow.Stopped}

func randFilter(r *rand.Rand, recs []rec15, deleted []uuid.UUID, groups []uuid.UUID) storage.Filters {
	var f storage.Filters
	for f.Validate() != nil {
		if r.Intn(2) == 0 {
			n := 1 + r.Intn(3)
			for i := 0; i < n; i++ {
				switch {
				case len(recs) > 0 && r.Intn(4) != 0:
					f.ByIDs = append(f.ByIDs, recs[r.Intn(len(recs))].ID)
				case len(deleted) > 0 && r.Intn(2) == 0:
					f.ByIDs = append(f.ByIDs, deleted[r.Intn(len(deleted))])
				default:
					f.ByIDs = append(f.ByIDs, store.NewV7())
				}
			}
		}
		if r.Intn(2) == 0 {
			n := 1 + r.Intn(2)
			for i := 0; i < n; i++ {
				if r.Intn(5) == 0 {
					f.ByGroupIDs = append(f.ByGroupIDs, store.NewV7())
				} else {
					f.ByGroupIDs = append(f.ByGroupIDs, groups[r.Intn(len(groups))])
				}
			}
		}
		if r.Intn(2) == 0 {
			n := 1 + r.Intn(3)
			perm := r.Perm(len(allStatuses))
			for i := 0; i < n; i++ {
				f.ByStatus = append(f.ByStatus, allStatuses[perm[i]])
			}
			// a caller that merges status lists asks for a status twice: same meaning
			if r.Intn(4) == 0 {
				dup := f.ByStatus[r.Intn(len(f.ByStatus))]
				at := r.Intn(len(f.ByStatus) + 1)
				f.ByStatus = append(f.ByStatus[:at], append([]workflow.Status{dup}, f.ByStatus[at:]...)...)
			}
		}
	}
	return f
}

func c15Run(c *Ctx, idx int) CaseResult {
	ctx := context.Background()
	r := gen.Rand(c.Seed, "C15", idx)
	kind := vaultKinds[idx%len(vaultKinds)]
	res := CaseResult{Counters: map[string]int{}}
	h, err := openVault(ctx, kind, c.Scratch, idx)
	if err != nil {
		res.Verdict = "inconclusive"
		res.Note = "open vault: " + err.Error()
		return res
	}
	add := func(rule, disc, f string, a ...any) {
		res.Viols = append(res.Viols, ev.V("C15", kind+"/"+rule, disc, f, a...))
	}
	const wd = 6 * time.Second
	groups := []uuid.UUID{store.NewV7(), store.NewV7(), uuid.Nil}
	var recs []rec15
	live := map[uuid.UUID]*workflow.Plan{}
	var deleted []uuid.UUID
	var log []string
	base := time.Unix(1700000000, 0).UTC()
	nsub := 0

	queries := func() {
		// Exists
		for _, rc := range recs {
			ok, err := h.Vault.Exists(ctx, rc.ID)
			res.Counters["exists_queries"]++
			if err != nil {
				add("exists-error", "", "Exists(%s) failed: %v", rc.ID, err)
			} else if !ok {
				add("exists", "false-for-created", "Exists is false for a plan that was created and not deleted")
			}
		}
		for _, id := range append(append([]uuid.UUID{}, deleted...), store.NewV7(), uuid.Nil) {
			ok, err := h.Vault.Exists(ctx, id)
			res.Counters["exists_queries"]++
			if err == nil && ok {
				add("exists", "true-for-missing", "Exists is true for an id that was deleted or never created")
			}
		}
		// List
		for _, limit := range []int{0, 1, len(recs) - 1, len(recs), len(recs) + 1} {
			if limit < 0 {
				continue
			}
			if h.Cosmos != nil {
				h.Cosmos.Queries()
			}
			ch, err := h.Vault.List(ctx, limit)
			res.Counters["list_queries"]++
			if err != nil {
				add("list-error", "", "List(%d) failed: %v", limit, err)
				continue
			}
			got, errs, closed := drain(ch, wd)
			if !closed {
				add("stream-not-closed", "List", "the stream returned by List(%d) was not closed within %v after %d results", limit, wd, len(got))
			}
			if len(errs) > 0 {
				add("list-error", "element", "List(%d) produced an error element: %v", limit, errs[0])
				continue
			}
			want := refFilter(recs, storage.Filters{}, limit)
			if kind == "cosmos-fake" {
				// the emitted query evaluated over the raw search documents
				if qs := h.Cosmos.Queries(); len(qs) == 1 {
					if rawRecs, rerr := rawSearchRecs(ctx, h); rerr == nil {
						if evald, perr := evalCosmosQuery(qs[0], rawRecs); perr != nil {
							res.Counters["cosmos_query_unparsable"]++
							res.Note = "cosmos list query not understood by the interpreter: " + perr.Error()
						} else {
							res.Counters["cosmos_queries_interpreted"]++
							if !sameOrdered(evald, want) {
								d := "members"
								if sameSet(evald, want) {
									d = "order"
								}
								add("list-query", d, "the Cosmos SQL sent for List(%d) selects %v from the stored search documents under our reading of Cosmos SQL, want %v; query: %s", limit, shortIDs(evald), shortIDs(want), qs[0].Query)
							}
						}
					}
				}
				// the fake ignores ORDER BY: count/limit and membership only
				if len(got) != len(want) {
					add("list", "count", "List(%d) returned %d plans, want %d", limit, len(got), len(want))
				} else if limit == 0 || limit >= len(recs) {
					if !sameSet(got, want) {
						add("list", "members", "List(%d) returned a different set of plans than were stored", limit)
					}
				}
			} else if !sameOrdered(got, want) {
				d := "members"
				if sameSet(got, want) {
					d = "order"
				} else if len(got) != len(want) {
					d = "count"
				}
				add("list", d, "List(%d): got %d plans %v, want %d plans %v (newest first)", limit, len(got), shortIDs(got), len(want), shortIDs(want))
			}
		}
		// Search
		nq := 8
		for q := 0; q < nq; q++ {
			var f storage.Filters
			if q == 0 {
				f = storage.Filters{ByStatus: []workflow.Status{workflow.Running}}
			} else {
				f = randFilter(r, recs, deleted, groups)
			}
			if h.Cosmos != nil {
				h.Cosmos.Queries()
			}
			ch, err := h.Vault.Search(ctx, f)
			res.Counters["search_queries"]++
			res.Counters["search_"+describeFilter(f)]++
			if err != nil {
				add("search-error", describeFilter(f), "Search(%s) failed: %v", describeFilter(f), err)
				continue
			}
			got, errs, closed := drain(ch, wd)
			if !closed {
				add("stream-not-closed", "Search", "the stream returned by Search(%s) was not closed within %v", describeFilter(f), wd)
			}
			if len(errs) > 0 {
				add("search-error", "element,"+describeFilter(f), "Search(%s) produced an error element: %v", describeFilter(f), errs[0])
				continue
			}
			want := refFilter(recs, f, 0)
			if kind == "cosmos-fake" {
				// (a) what the fake can execute: ByIDs-only membership
				if len(f.ByGroupIDs) == 0 && len(f.ByStatus) == 0 {
					if !sameSet(got, want) {
						add("search", "ids-members", "Search(ids) returned %v, want %v", shortIDs(got), shortIDs(want))
					}
				}
				// (b) the semantics live in the query text: evaluate it with our interpreter over the model
				qs := h.Cosmos.Queries()
				if len(qs) != 1 {
					res.Counters["cosmos_query_not_recorded"]++
					continue
				}
				// evaluated over the RAW documents of the search partition (not over the model): a search entry that
				// lost a property, kept a stale status or survived a Delete is then visible
				rawRecs, rerr := rawSearchRecs(ctx, h)
				if rerr != nil {
					res.Counters["cosmos_raw_unreadable"]++
					continue
				}
				evald, perr := evalCosmosQuery(qs[0], rawRecs)
				if perr != nil {
					res.Counters["cosmos_query_unparsable"]++
					res.Note = "cosmos query not understood by the interpreter: " + perr.Error()
					continue
				}
				res.Counters["cosmos_queries_interpreted"]++
				if !sameOrdered(evald, want) {
					d := "members"
					if sameSet(evald, want) {
						d = "order"
					}
					add("search-query", d+","+describeFilter(f), "the Cosmos SQL sent for Search(%s) selects %v under our reading of Cosmos SQL, the filter means %v; query: %s", describeFilter(f), shortIDs(evald), shortIDs(want), qs[0].Query)
				}
				continue
			}
			if !sameOrdered(got, want) {
				d := "members"
				if sameSet(got, want) {
					d = "order"
				}
				add("search", d+","+describeFilter(f), "Search(%s): got %v, want %v (newest first)", describeFilter(f), shortIDs(got), shortIDs(want))
			}
			if q == 0 {
				res.Counters["running_searches"]++
			}
		}
	}

	// the vault still answers after <what>
	stillAnswers := func(what string) {
		done := make(chan string, 1)
		go func() {
			ch, err := h.Vault.List(ctx, 0)
			if err != nil {
				done <- "error: " + err.Error()
				return
			}
			got, _, closed := drain(ch, wd)
			if !closed {
				done <- "stream not closed"
				return
			}
			if len(got) != len(recs) {
				done <- fmt.Sprintf("returned %d plans, want %d", len(got), len(recs))
				return
			}
			done <- ""
		}()
		select {
		case m := <-done:
			if m != "" {
				add("after-stream", strings.ReplaceAll(what, " ", "-"), "List after a %s: %s", what, m)
			}
		case <-time.After(5 * wd):
			add("stream-not-closed", "List,after-"+strings.ReplaceAll(what, " ", "-"), "List called after a %s did not answer within %v (connection or lock not released)", what, 5*wd)
		}
	}
	// cancelled consumers: the caller reads k results, cancels its context and keeps draining — the stream must still
	// be closed, what was delivered before the cancel must be what an uncancelled stream delivers first, and the vault
	// must go on answering afterwards (a stream that keeps its connection or lock is the next caller's hang)
	cancelled := func() {
		if len(recs) < 1 {
			return
		}
		useList := r.Intn(2) == 0
		k := r.Intn(len(recs))
		pre := r.Intn(6) == 0 // context cancelled before the call
		cctx, cancel := context.WithCancel(ctx)
		if pre {
			cancel()
		}
		var ch chan storage.Stream[storage.ListResult]
		var err error
		what := "List"
		var f storage.Filters
		if useList {
			ch, err = h.Vault.List(cctx, 0)
		} else {
			what = "Search"
			f = storage.Filters{ByStatus: append([]workflow.Status{}, allStatuses...)}
			ch, err = h.Vault.Search(cctx, f)
		}
		res.Counters["cancelled_streams"]++
		if pre {
			res.Counters["cancelled_before_call_"+kind]++
			if err != nil {
				res.Counters["cancelled_before_call_refused"]++
			}
		}
		if err != nil {
			cancel()
			if !pre {
				add("cancel-stream-error", what, "%s failed before its context was cancelled: %v", what, err)
			}
		} else {
			var before []rec15
			open := true
			for len(before) < k && open && !pre {
				select {
				case sr, ok := <-ch:
					if !ok {
						open = false
						break
					}
					if sr.Err != nil {
						add("cancel-stream-error", what+",element", "%s produced an error element before its context was cancelled: %v", what, sr.Err)
						open = false
						break
					}
					st := workflow.Status(-1)
					if sr.Result.State != nil {
						st = sr.Result.State.Status
					}
					before = append(before, rec15{ID: sr.Result.ID, Group: sr.Result.GroupID, Name: sr.Result.Name, Descr: sr.Result.Descr, Submit: sr.Result.SubmitTime, Status: st})
				case <-time.After(wd):
					add("stream-not-closed", what+",stalled", "the stream returned by %s delivered %d of %d results and then nothing for %v", what, len(before), len(recs), wd)
					open = false
				}
			}
			cancel()
			_, _, closed := drain(ch, wd)
			if !closed {
				add("stream-not-closed", what+",cancelled", "the stream returned by %s was not closed within %v after its context was cancelled (%d results read before)", what, wd, len(before))
			}
			want := refFilter(recs, f, 0)
			if kind != "cosmos-fake" && len(before) <= len(want) && !sameOrdered(before, want[:len(before)]) {
				add("cancel-stream", what+",prefix", "%s: the %d results read before the cancel %v are not the first results of the full answer %v", what, len(before), shortIDs(before), shortIDs(want))
			}
			if len(before) > 0 {
				res.Counters["cancelled_midstream"]++
			}
		}
		stillAnswers("cancelled " + what + " stream")
	}
	// refused queries: a Search the vault rejects (no filter at all) must be answered with an error or a stream that is
	// closed, and must leave the vault able to answer the next caller
	refused := func() {
		res.Counters["refused_searches"]++
		done := make(chan string, 1)
		go func() {
			ch, err := h.Vault.Search(ctx, storage.Filters{})
			if err != nil {
				done <- ""
				return
			}
			if _, _, closed := drain(ch, wd); !closed {
				done <- "stream not closed"
				return
			}
			done <- ""
		}()
		select {
		case m := <-done:
			if m != "" {
				add("stream-not-closed", "Search,no-filter", "Search without any filter: %s", m)
			}
		case <-time.After(5 * wd):
			add("stream-not-closed", "Search,no-filter,no-answer", "Search without any filter did not answer within %v", 5*wd)
		}
		stillAnswers("refused Search")
	}

	nSteps := 3 + r.Intn(6)
	if kind == "cosmos-fake" {
		nSteps = 2 + r.Intn(3)
	}
	for step := 0; step < nSteps && len(res.Viols) == 0; step++ {
		switch op := r.Intn(10); {
		case op < 5 || len(recs) == 0:
			// create
			p := store.RandPlan(r, store.GenOpts{MaxBlocks: 1, MaxSeqs: 1, MaxActions: 1})
			p.GroupID = groups[r.Intn(len(groups))]
			nsub++
			p.SubmitTime = base.Add(time.Duration(r.Intn(1000000))*time.Second + time.Duration(nsub)*time.Nanosecond)
			p.State.Status = allStatuses[r.Intn(len(allStatuses))]
			want := rec15{ID: p.ID, Group: p.GroupID, Name: p.Name, Descr: p.Descr, Submit: p.SubmitTime, Status: p.State.Status}
			if err := h.Vault.Create(ctx, p); err != nil {
				add("create-error", "", "Create failed: %v", err)
				continue
			}
			lp, err := h.Vault.Read(ctx, p.ID)
			if err != nil {
				res.Verdict = "inconclusive"
				res.Note = "Read after Create failed: " + err.Error()
				return res
			}
			live[p.ID] = lp
			recs = append(recs, want)
			log = append(log, fmt.Sprintf("create status=%d", want.Status))
		case op < 8:
			i := r.Intn(len(recs))
			lp := live[recs[i].ID]
			lp.State.Status = allStatuses[r.Intn(len(allStatuses))]
			if err := h.Vault.UpdatePlan(ctx, lp); err != nil {
				add("update-error", "", "UpdatePlan failed: %v", err)
				continue
			}
			recs[i].Status = lp.State.Status
			log = append(log, fmt.Sprintf("update status=%d", lp.State.Status))
		default:
			i := r.Intn(len(recs))
			if err := h.Vault.Delete(ctx, recs[i].ID); err != nil {
				add("delete-error", "", "Delete failed: %v", err)
				continue
			}
			deleted = append(deleted, recs[i].ID)
			delete(live, recs[i].ID)
			recs = append(recs[:i], recs[i+1:]...)
			log = append(log, "delete")
		}
		queries()
		if len(res.Viols) == 0 && (step%2 == 1 || kind == "cosmos-fake") {
			cancelled()
		}
		if len(res.Viols) == 0 && step%3 == 2 {
			refused()
		}
	}
	if kind == "sqlite-file" {
		// behind a watchdog of its own: closing a store whose connection was never given back waits for ever
		closed := make(chan struct{})
		go func() { h.Vault.Close(ctx); close(closed) }()
		select {
		case <-closed:
		case <-time.After(4 * wd):
			if len(res.Viols) == 0 {
				add("stream-not-closed", "Close", "closing the store did not return within %v after all streams were drained (a connection was not given back)", 4*wd)
			}
		}
	}
	res.Nontriv = hashStr(fmt.Sprint(kind, log))
	res.ISig = res.Nontriv
	res.Events = res.Counters["exists_queries"] + res.Counters["list_queries"] + res.Counters["search_queries"]
	if idx < 6 {
		res.Sample = map[string]any{"vault": kind, "mutations": log, "plans_at_end": len(recs), "queries": res.Events}
	}
	if len(res.Viols) > 0 {
		res.Witness = map[string]any{"vault": kind, "mutations": log}
	}
	return res
}

func shortIDs(rs []rec15) []string {
	var out []string
	for _, r := range rs {
		s := r.ID.String()
		out = append(out, s[len(s)-6:])
	}
	return out
}

// ---------- interpreter for the fragment of Cosmos SQL the reader emits ----------

type cqTok struct{ s string }

func tokenizeCQ(s string) []string {
	var toks []string
	cur := strings.Builder{}
	flush := func() {
		if cur.Len() > 0 {
			toks = append(toks, cur.String())
			cur.Reset()
		}
	}
	for _, ch := range s {
		switch {
		case ch == ' ' || ch == '\n' || ch == '\t':
			flush()
		case ch == '(' || ch == ')' || ch == ',' || ch == '=':
			flush()
			toks = append(toks, string(ch))
		default:
			cur.WriteRune(ch)
		}
	}
	flush()
	return toks
}

type cqParser struct {
	toks   []string
	pos    int
	params map[string]any
}

func (p *cqParser) peek() string {
	if p.pos < len(p.toks) {
		return p.toks[p.pos]
	}
	return ""
}
func (p *cqParser) next() string {
	t := p.peek()
	p.pos++
	return t
}
func (p *cqParser) expect(s string) error {
	if t := p.next(); !strings.EqualFold(t, s) {
		return fmt.Errorf("expected %q, got %q", s, t)
	}
	return nil
}

type cqPred func(r rec15) (bool, error)

func (p *cqParser) orExpr() (cqPred, error) {
	l, err := p.andExpr()
	if err != nil {
		return nil, err
	}
	for strings.EqualFold(p.peek(), "OR") {
		p.next()
		r, err := p.andExpr()
		if err != nil {
			return nil, err
		}
		ll := l
		l = func(x rec15) (bool, error) {
			a, err := ll(x)
			if err != nil {
				return false, err
			}
			b, err := r(x)
			return a || b, err
		}
	}
	return l, nil
}

func (p *cqParser) andExpr() (cqPred, error) {
	l, err := p.primary()
	if err != nil {
		return nil, err
	}
	for strings.EqualFold(p.peek(), "AND") {
		p.next()
		r, err := p.primary()
		if err != nil {
			return nil, err
		}
		ll := l
		l = func(x rec15) (bool, error) {
			a, err := ll(x)
			if err != nil {
				return false, err
			}
			b, err := r(x)
			return a && b, err
		}
	}
	return l, nil
}

// undefinedVal is the value of a property the stored document does not have.
type undefinedVal struct{}

func fieldVal(field string, r rec15) (any, error) {
	switch field {
	case "c.swarm":
		if r.raw {
			if !r.hasSwarm {
				return undefinedVal{}, nil
			}
			return r.swarm, nil
		}
		return "swarm", nil
	case "c.id":
		return r.ID, nil
	case "c.groupID":
		return r.Group, nil
	case "c.stateStatus":
		if r.raw && !r.hasStatus {
			return undefinedVal{}, nil
		}
		return int64(r.Status), nil
	}
	return nil, fmt.Errorf("unknown field %s", field)
}

// rawSearchRecs decodes the raw documents of the search partition held by the fake.
func rawSearchRecs(ctx context.Context, h *store.Handle) ([]rec15, error) {
	items, err := h.Cosmos.RawItems(ctx)
	if err != nil {
		return nil, err
	}
	var out []rec15
	for _, it := range items {
		if it.Table != "search" {
			continue
		}
		var doc map[string]any
		if err := json.Unmarshal(it.Data, &doc); err != nil {
			return nil, fmt.Errorf("search document %s: %w", it.ID, err)
		}
		r := rec15{raw: true}
		if v, ok := doc["id"].(string); ok {
			r.ID, _ = uuid.Parse(v)
		}
		if v, ok := doc["groupID"].(string); ok {
			r.Group, _ = uuid.Parse(v)
		}
		r.Name, _ = doc["name"].(string)
		r.Descr, _ = doc["descr"].(string)
		if v, ok := doc["submitTime"].(string); ok {
			r.Submit, _ = time.Parse(time.RFC3339Nano, v)
		}
		if v, ok := doc["stateStatus"].(float64); ok {
			r.hasStatus = true
			r.Status = workflow.Status(int(v))
		}
		if v, ok := doc["swarm"].(string); ok {
			r.hasSwarm = true
			r.swarm = v
		}
		out = append(out, r)
	}
	return out, nil
}

func (p *cqParser) primary() (cqPred, error) {
	t := p.next()
	switch {
	case t == "(":
		e, err := p.orExpr()
		if err != nil {
			return nil, err
		}
		return e, p.expect(")")
	case strings.EqualFold(t, "ARRAY_CONTAINS"):
		if err := p.expect("("); err != nil {
			return nil, err
		}
		param := p.next()
		if err := p.expect(","); err != nil {
			return nil, err
		}
		field := p.next()
		if err := p.expect(")"); err != nil {
			return nil, err
		}
		v, ok := p.params[param]
		if !ok {
			return nil, fmt.Errorf("parameter %s not supplied", param)
		}
		ids, ok := v.([]uuid.UUID)
		if !ok {
			return nil, fmt.Errorf("parameter %s is %T, want []uuid.UUID", param, v)
		}
		return func(r rec15) (bool, error) {
			fv, err := fieldVal(field, r)
			if err != nil {
				return false, err
			}
			id, ok := fv.(uuid.UUID)
			if !ok {
				return false, fmt.Errorf("field %s is not an id", field)
			}
			return containsID(ids, id), nil
		}, nil
	case strings.HasPrefix(t, "c."):
		if err := p.expect("="); err != nil {
			return nil, err
		}
		param := p.next()
		v, ok := p.params[param]
		if !ok {
			return nil, fmt.Errorf("parameter %s not supplied", param)
		}
		field := t
		return func(r rec15) (bool, error) {
			fv, err := fieldVal(field, r)
			if err != nil {
				return false, err
			}
			if _, undef := fv.(undefinedVal); undef {
				return false, nil
			}
			return fmt.Sprint(fv) == fmt.Sprint(v), nil
		}, nil
	}
	return nil, fmt.Errorf("unexpected token %q", t)
}

func evalCosmosQuery(q cosmosdb.VerifQuery, recs []rec15) ([]rec15, error) {
	s := q.Query
	i := strings.Index(strings.ToUpper(s), " WHERE ")
	if i < 0 {
		return nil, fmt.Errorf("no WHERE clause")
	}
	if !strings.Contains(s[:i], "FROM c") {
		return nil, fmt.Errorf("unexpected FROM clause")
	}
	rest := s[i+len(" WHERE "):]
	order := ""
	if j := strings.Index(strings.ToUpper(rest), " ORDER BY "); j >= 0 {
		order = strings.TrimSpace(rest[j+len(" ORDER BY "):])
		rest = rest[:j]
	}
	p := &cqParser{toks: tokenizeCQ(rest), params: q.Params}
	pred, err := p.orExpr()
	if err != nil {
		return nil, err
	}
	if p.pos != len(p.toks) {
		return nil, fmt.Errorf("trailing tokens after the WHERE expression: %v", p.toks[p.pos:])
	}
	var out []rec15
	for _, r := range recs {
		ok, err := pred(r)
		if err != nil {
			return nil, err
		}
		if ok {
			out = append(out, r)
		}
	}
	// ORDER BY / LIMIT
	limit := 0
	if order != "" {
		ot := strings.Fields(order)
		if len(ot) < 2 || ot[0] != "c.submitTime" {
			return nil, fmt.Errorf("unexpected ORDER BY %q", order)
		}
		desc := strings.EqualFold(ot[1], "DESC")
		if !desc && !strings.EqualFold(ot[1], "ASC") {
			return nil, fmt.Errorf("unexpected ORDER BY direction %q", ot[1])
		}
		sort.SliceStable(out, func(i, j int) bool {
			if desc {
				return out[i].Submit.After(out[j].Submit)
			}
			return out[i].Submit.Before(out[j].Submit)
		})
		if len(ot) > 2 {
			if len(ot) != 6 || !strings.EqualFold(ot[2], "OFFSET") || ot[3] != "0" || !strings.EqualFold(ot[4], "LIMIT") {
				return nil, fmt.Errorf("unexpected tail %v", ot[2:])
			}
			if v, ok := q.Params[ot[5]].(int); ok {
				limit = v
			} else {
				return nil, fmt.Errorf("limit parameter %s missing", ot[5])
			}
		}
	}
	if limit > 0 && len(out) > limit {
		out = out[:limit]
	}
	return out, nil
}

func init() {
	register(&Prop{
		ID: "C15", Level: "exploration", Batch: 20, PerCaseTimeout: 120 * time.Second,
		Rule:  "case i = PRNG(seed,i): vault kind by i mod 6; 3-8 mutations (create with PRNG status/group/submit time, UpdatePlan status change, Delete); after each mutation Exists for every live, deleted and unknown id, List with limits {0,1,n-1,n,n+1}, Search{Running} and 7 PRNG filters over ids (known, deleted, unknown), group ids and 1-3 statuses; results compared as ordered lists with a reference filter; every stream drained behind a 6 s watchdog; for cosmosdb the emitted Cosmos SQL is evaluated by an interpreter of the emitted fragment; distinct by (vault, mutation list); after every 2nd mutation a stream whose caller cancels after k results (or before the call) and keeps draining: closed, prefix delivered, vault still answers; after every 3rd a refused Search (no filter); every 12th case: 2 writers (create / status change / delete of their own plans) racing with 3 queriers (List, Search by status, Exists), every call stamped at the boundary, interval oracle (definitely-there listed once, definitely-gone never, status one the plan could have had during the call, newest first, streams closed), race detector on",
		Cases: nCases(180, 3000),
		Run:   everyNth(12, c15Concurrent, c15Run),
		RaceAttr: func(rb ev.RaceBlock) bool {
			return rb.HasFunc("workflow/storage/") && (rb.HasFunc("List") || rb.HasFunc("Search") || rb.HasFunc("Exists"))
		},
		MinNontrivial: 30,
		Finish: func(tier string, counters map[string]int, cov map[string]any) string {
			if counters["cosmos_query_unparsable"] > 0 {
				return fmt.Sprintf("%d Cosmos SQL queries were not understood by the interpreter", counters["cosmos_query_unparsable"])
			}
			return ""
		},
		Assumptions: []string{"cosmosdb: the package's fake client only executes id membership and limit; status/group/order semantics are decided on the emitted Cosmos SQL text under our reading of Cosmos SQL (AND binds tighter than OR)",
			"ListResult state start/end times are not compared (the statement speaks about which plans are returned and in which order)"},
	})
}
