package checks

// C17: secure-tagged values never leak through clones or HTML reports; untagged data and the original plan
// stay intact; the registry refuses secret-looking untagged field names (DESIGN §C17).
//
// This file also holds the small reflection helpers shared with c18.go (rwFingerprint, safely).

import (
	"bytes"
	"encoding/base64"
	"encoding/json"
	"fmt"
	"io/fs"
	"math/rand"
	"reflect"
	"regexp"
	"sort"
	"strconv"
	"strings"
	"time"

	"github.com/element-of-surprise/coercion/plugins"
	plugreg "github.com/element-of-surprise/coercion/plugins/registry"
	"github.com/element-of-surprise/coercion/workflow"
	"github.com/element-of-surprise/coercion/workflow/context"
	"github.com/element-of-surprise/coercion/workflow/utils/clone"
	"github.com/element-of-surprise/coercion/workflow/utils/html/reports"
	"github.com/google/uuid"
	"github.com/gostdlib/base/retry/exponential"

	"verifharness/internal/ev"
	"verifharness/internal/gen"
)

// ---------------------------------------------------------------------------------------------------
// shared helpers (also used by c18.go)
// ---------------------------------------------------------------------------------------------------

// safely runs f and converts a panic into a short, digit-free message class plus the full text.
func safely(f func()) (class string, full string) {
	defer func() {
		if x := recover(); x != nil {
			full = fmt.Sprint(x)
			class = panicClass(full)
		}
	}()
	f()
	return "", ""
}

func panicClass(s string) string {
	if i := strings.IndexByte(s, '\n'); i >= 0 {
		s = s[:i]
	}
	s = strings.Map(func(r rune) rune {
		switch {
		case r >= '0' && r <= '9':
			return -1
		case r == '/':
			return '_'
		}
		return r
	}, s)
	// the text in front of a type description is the stable part
	for _, cut := range []string{"struct {", "(", "\""} {
		if i := strings.Index(s, cut); i > 12 {
			s = s[:i]
		}
	}
	s = strings.TrimSpace(s)
	if len(s) > 48 {
		s = s[:48]
	}
	return s
}

var rwTimeType = reflect.TypeOf(time.Time{})

// rwFingerprint writes a complete structural description of everything reachable from v through exported
// fields: kinds, nil-ness, lengths, dynamic types and leaf values. Two fingerprints are equal iff the two
// object graphs are observably equal (unexported fields are outside the statement and are skipped).
func rwFingerprint(v reflect.Value, sb *[]byte, depth int) {
	w := func(s string) { *sb = append(*sb, s...) }
	if depth > 64 {
		w("<deep>")
		return
	}
	if !v.IsValid() {
		w("!")
		return
	}
	switch v.Kind() {
	case reflect.Bool:
		*sb = strconv.AppendBool(append(*sb, 'b'), v.Bool())
	case reflect.Int, reflect.Int8, reflect.Int16, reflect.Int32, reflect.Int64:
		*sb = strconv.AppendInt(append(*sb, 'i'), v.Int(), 10)
	case reflect.Uint, reflect.Uint8, reflect.Uint16, reflect.Uint32, reflect.Uint64, reflect.Uintptr:
		*sb = strconv.AppendUint(append(*sb, 'u'), v.Uint(), 10)
	case reflect.Float32, reflect.Float64:
		*sb = strconv.AppendFloat(append(*sb, 'f'), v.Float(), 'g', -1, 64)
	case reflect.Complex64, reflect.Complex128:
		w(fmt.Sprintf("c%v", v.Complex()))
	case reflect.String:
		s := v.String()
		*sb = strconv.AppendInt(append(*sb, 's'), int64(len(s)), 10)
		w(":")
		w(s)
	case reflect.Ptr:
		if v.IsNil() {
			w("nilp")
			return
		}
		w("&")
		rwFingerprint(v.Elem(), sb, depth+1)
	case reflect.Interface:
		if v.IsNil() {
			w("nili")
			return
		}
		w("i<")
		w(v.Elem().Type().String())
		w(">")
		rwFingerprint(v.Elem(), sb, depth+1)
	case reflect.Slice:
		if v.IsNil() {
			w("nils")
			return
		}
		if v.Type().Elem().Kind() == reflect.Uint8 {
			*sb = strconv.AppendInt(append(*sb, 'x'), int64(v.Len()), 10)
			w(":")
			*sb = append(*sb, v.Bytes()...)
			return
		}
		*sb = strconv.AppendInt(append(*sb, '['), int64(v.Len()), 10)
		w(":")
		for i := 0; i < v.Len(); i++ {
			rwFingerprint(v.Index(i), sb, depth+1)
			w(",")
		}
		w("]")
	case reflect.Array:
		w("a[")
		for i := 0; i < v.Len(); i++ {
			rwFingerprint(v.Index(i), sb, depth+1)
			w(",")
		}
		w("]")
	case reflect.Map:
		if v.IsNil() {
			w("nilm")
			return
		}
		keys := v.MapKeys()
		sort.Slice(keys, func(i, j int) bool { return fmt.Sprint(keys[i]) < fmt.Sprint(keys[j]) })
		*sb = strconv.AppendInt(append(*sb, 'm', '['), int64(len(keys)), 10)
		w(":")
		for _, k := range keys {
			w(fmt.Sprint(k))
			w("=")
			rwFingerprint(v.MapIndex(k), sb, depth+1)
			w(",")
		}
		w("]")
	case reflect.Struct:
		if v.Type() == rwTimeType && v.CanInterface() {
			t := v.Interface().(time.Time)
			*sb = strconv.AppendInt(append(*sb, 't'), t.UnixNano(), 10)
			if t.IsZero() {
				w("z")
			}
			w("/")
			w(t.Location().String())
			return
		}
		w("{")
		t := v.Type()
		for i := 0; i < v.NumField(); i++ {
			f := t.Field(i)
			if !f.IsExported() {
				continue
			}
			w(f.Name)
			w(":")
			rwFingerprint(v.Field(i), sb, depth+1)
			w(";")
		}
		w("}")
	default:
		w("?")
		w(v.Kind().String())
	}
}

func fingerprintOf(x any) string {
	sb := make([]byte, 0, 16384)
	rwFingerprint(reflect.ValueOf(x), &sb, 0)
	return string(sb)
}

// ---------------------------------------------------------------------------------------------------
// markers
// ---------------------------------------------------------------------------------------------------

const (
	c17CanS = "CANARY-"   // + 5 digits
	c17PlS  = "PLAIN-"    // + 5 digits
	c17CanB = "CANARYBT-" // 9 bytes, so its base64 form is a fixed 12 character prefix
	c17PlB  = "PLAINBYT-" // 9 bytes
	c17CanI = int64(7700000000000000)
	c17PlI  = int64(3300000000000000)
)

var (
	c17CanT = time.Date(2055, 5, 5, 0, 0, 0, 0, time.UTC) // + n seconds
	c17PlT  = time.Date(2044, 4, 4, 0, 0, 0, 0, time.UTC)
)

type c17Found struct {
	can, plain map[int]bool
}

func newFound() *c17Found { return &c17Found{can: map[int]bool{}, plain: map[int]bool{}} }

func isDigit(b byte) bool { return b >= '0' && b <= '9' }

func digits5(b []byte) (int, bool) {
	if len(b) < 5 {
		return 0, false
	}
	n := 0
	for i := 0; i < 5; i++ {
		if !isDigit(b[i]) {
			return 0, false
		}
		n = n*10 + int(b[i]-'0')
	}
	if len(b) > 5 && isDigit(b[5]) {
		return 0, false
	}
	return n, true
}

func scanPrefix(data []byte, prefix string, f func(at int, rest []byte)) {
	p := []byte(prefix)
	off := 0
	for {
		i := bytes.Index(data[off:], p)
		if i < 0 {
			return
		}
		at := off + i
		f(at, data[at+len(p):])
		off = at + 1
	}
}

// c17Scan records every canary / plain marker number occurring in data, in any of the encodings a leaf can
// take in JSON or in the rendered HTML (plain text, decimal integer, base64 bytes, RFC 3339 time).
func c17Scan(data []byte, f *c17Found) {
	str := func(prefix string, into map[int]bool) {
		scanPrefix(data, prefix, func(at int, rest []byte) {
			if n, ok := digits5(rest); ok {
				into[n] = true
			}
		})
	}
	str(c17CanS, f.can)
	str(c17PlS, f.plain)
	str(c17CanB, f.can)
	str(c17PlB, f.plain)
	b64 := func(prefix string, into map[int]bool) {
		scanPrefix(data, base64.StdEncoding.EncodeToString([]byte(prefix)), func(at int, rest []byte) {
			if len(rest) < 8 {
				return
			}
			dec, err := base64.StdEncoding.DecodeString(string(rest[:8]))
			if err != nil {
				return
			}
			if n, ok := digits5(dec); ok {
				into[n] = true
			}
		})
	}
	b64(c17CanB, f.can)
	b64(c17PlB, f.plain)
	num := func(base int64, into map[int]bool) {
		scanPrefix(data, fmt.Sprint(base/100000), func(at int, rest []byte) {
			if at > 0 && isDigit(data[at-1]) {
				return
			}
			if n, ok := digits5(rest); ok {
				into[n] = true
			}
		})
	}
	num(c17CanI, f.can)
	num(c17PlI, f.plain)
	tm := func(base time.Time, into map[int]bool) {
		scanPrefix(data, base.Format("2006-01-02T"), func(at int, rest []byte) {
			if len(rest) < 8 || rest[2] != ':' || rest[5] != ':' {
				return
			}
			for _, i := range []int{0, 1, 3, 4, 6, 7} {
				if !isDigit(rest[i]) {
					return
				}
			}
			h := int(rest[0]-'0')*10 + int(rest[1]-'0')
			m := int(rest[3]-'0')*10 + int(rest[4]-'0')
			s := int(rest[6]-'0')*10 + int(rest[7]-'0')
			into[h*3600+m*60+s] = true
		})
	}
	tm(c17CanT, f.can)
	tm(c17PlT, f.plain)
}

// Every rendered file embeds the same 1.6 MB banner image. It is located once per process (taken from a
// marker-free reference render and itself scanned once); in each file the byte-identical blob is then
// skipped, everything around it is scanned.
var (
	c17BannerOnce bool
	c17Banner     []byte
)

func c17BannerBlob(ctx context.Context) []byte {
	if c17BannerOnce {
		return c17Banner
	}
	c17BannerOnce = true
	safely(func() {
		h := c17BuildPlan(rand.New(rand.NewSource(7)), map[string]any{}, "block.Pre", 0)
		files, err := c17Render(ctx, h.plan)
		if err != nil {
			return
		}
		f := files["plan.html"]
		i := bytes.Index(f, []byte(`<div id="banner"`))
		if i < 0 {
			return
		}
		j := bytes.Index(f[i:], []byte(`<span style="margin-left:20px">`))
		if j < 4096 {
			return
		}
		blob := f[i : i+j]
		chk := newFound()
		c17Scan(blob, chk)
		if len(chk.can)+len(chk.plain) == 0 {
			c17Banner = append([]byte(nil), blob...)
		}
	})
	return c17Banner
}

func c17ScanFile(ctx context.Context, data []byte, f *c17Found) {
	if blob := c17BannerBlob(ctx); len(blob) > 0 {
		if k := bytes.Index(data, blob[:64]); k >= 0 && len(data) >= k+len(blob) && bytes.Equal(data[k:k+len(blob)], blob) {
			c17Scan(data[:k], f)
			c17Scan(data[k+len(blob):], f)
			return
		}
	}
	c17Scan(data, f)
}

// ---------------------------------------------------------------------------------------------------
// hand-written named types (what reflect.StructOf cannot express)
// ---------------------------------------------------------------------------------------------------

type C17Item struct {
	Note   string
	Secret string `coerce:"secure"`
	Num    int
	Pin    int `coerce:"secure"`
}

func (i C17Item) Show() string { return "item" }

type C17Shower interface{ Show() string }

type C17Emb struct {
	EmbNote  string
	EmbToken string `coerce:"secure"`
}
type C17EmbP struct {
	PNote string
	PPass []byte `coerce:"secure"`
}
type (
	C17Items  []C17Item
	C17PItems []*C17Item
	C17Dict   map[string]C17Item
	C17PDict  map[string]*C17Item
	C17Str    string
	C17Bytes  []byte
)
type C17Box[T any] struct {
	Label  string
	V      T
	Hidden T `coerce:"secure"`
}
type C17Node struct {
	Val    string
	Secret string `coerce:"secure"`
	Next   *C17Node
	Kids   []*C17Node
}

type (
	C17H01 struct {
		C17Emb
		Name string
	}
	C17H02 struct {
		*C17EmbP
		Name string
	}
	C17H03 struct {
		Items  C17Items
		PItems C17PItems
	}
	C17H04 struct {
		Dict  C17Dict
		PDict C17PDict
	}
	C17H05 struct {
		Any  any
		Note string
	}
	C17H06 struct {
		Show  C17Shower
		Shows []C17Shower
		ShowM map[string]C17Shower
	}
	C17H07 struct{ PP **C17Item }
	C17H08 struct {
		PS *[]C17Item
		PM *map[string]C17Item
		PA *any
	}
	C17H09 struct {
		LL [][]C17Item
		LM []map[string]C17Item
	}
	C17H10 struct {
		MLA map[string][]any
		ML  map[string][]C17Item
	}
	C17H11 struct {
		LA []any
		MA map[string]any
	}
	C17H12 struct {
		Pw      C17Str   `coerce:"secure"`
		Raw     C17Bytes `coerce:"secure"`
		Open    C17Str
		OpenRaw C17Bytes
	}
	C17H13 struct{ Root C17Node }
	C17H14 struct {
		Creds []C17Item         `coerce:"secure"`
		M     map[string]string `coerce:"secure"`
		P     *C17Item          `coerce:"secure"`
		A     any               `coerce:"secure"`
		S     C17Item           `coerce:"secure"`
		Keep  C17Item
	}
	C17H15 struct {
		Token string `json:"token" coerce:"secure"`
		User  string `json:"user"`
		Extra string `json:"extra,omitempty" coerce:"ignore"`
	}
	C17H16 struct{ Box C17Box[C17Item] }
	C17H17 struct{ Box C17Box[[]any] }
	C17H18 struct {
		When  time.Time
		Exp   time.Time `coerce:"secure"`
		PT    *time.Time
		Times []time.Time
		TM    map[string]time.Time
	}
	C17H19 struct {
		LPA []*any
		MPP map[string]**C17Item
	}
	C17H20 struct {
		Inner struct {
			Deep struct {
				Secret string `coerce:"secure"`
				Plain  string
			}
		}
		P *struct {
			Secret string `coerce:"secure"`
			Plain  string
		}
	}
	C17H21 struct {
		PItems *C17Items
		PDict  *C17Dict
	}
	// for the registry clause only: secret-looking names without a tag
	C17R01 struct {
		C17RBad
		Name string
	}
	C17R02 struct {
		*C17RBad
		Name string
	}
	C17RBad struct{ Password string }
)

var c17Named = []reflect.Type{
	reflect.TypeOf(C17H01{}), reflect.TypeOf(C17H02{}), reflect.TypeOf(C17H03{}), reflect.TypeOf(C17H04{}),
	reflect.TypeOf(C17H05{}), reflect.TypeOf(C17H06{}), reflect.TypeOf(C17H07{}), reflect.TypeOf(C17H08{}),
	reflect.TypeOf(C17H09{}), reflect.TypeOf(C17H10{}), reflect.TypeOf(C17H11{}), reflect.TypeOf(C17H12{}),
	reflect.TypeOf(C17H13{}), reflect.TypeOf(C17H14{}), reflect.TypeOf(C17H15{}), reflect.TypeOf(C17H16{}),
	reflect.TypeOf(C17H17{}), reflect.TypeOf(C17H18{}), reflect.TypeOf(C17H19{}), reflect.TypeOf(C17H20{}),
	reflect.TypeOf(C17H21{}),
}

// small named types offered to the grammar as element types
var c17Pool = []reflect.Type{
	reflect.TypeOf(C17Item{}), reflect.TypeOf(&C17Item{}), reflect.TypeOf(C17Items{}), reflect.TypeOf(C17Dict{}),
	reflect.TypeOf(C17Str("")), reflect.TypeOf(C17Bytes{}), reflect.TypeOf(C17Box[C17Item]{}),
}

var (
	c17TString = reflect.TypeOf("")
	c17TInt    = reflect.TypeOf(int(0))
	c17TBool   = reflect.TypeOf(false)
	c17TBytes  = reflect.TypeOf([]byte(nil))
	c17TAny    = reflect.TypeOf((*any)(nil)).Elem()
	c17TShower = reflect.TypeOf((*C17Shower)(nil)).Elem()
)

const (
	c17TagSecure = reflect.StructTag(`coerce:"secure"`)
	c17TagIgnore = reflect.StructTag(`coerce:"ignore"`)
)

// ---------------------------------------------------------------------------------------------------
// type grammar:  T ::= struct{F...} | *T | []T | map[string]T | any(T) | leaf     (depth <= 5)
// ---------------------------------------------------------------------------------------------------

type c17Gen struct {
	r *rand.Rand
}

func (g *c17Gen) leaf() reflect.Type {
	switch g.r.Intn(10) {
	case 0, 1, 2, 3:
		return c17TString
	case 4, 5:
		return c17TInt
	case 6:
		return c17TBool
	case 7, 8:
		return c17TBytes
	}
	return rwTimeType
}

func (g *c17Gen) typ(depth int) reflect.Type {
	if depth <= 0 {
		return g.leaf()
	}
	x := g.r.Intn(100)
	switch {
	case x < 32:
		return g.structT(depth)
	case x < 46:
		return reflect.PointerTo(g.typ(depth - 1))
	case x < 60:
		return reflect.SliceOf(g.typ(depth - 1))
	case x < 72:
		return reflect.MapOf(c17TString, g.typ(depth-1))
	case x < 82:
		return c17TAny
	case x < 87:
		return c17Pool[g.r.Intn(len(c17Pool))]
	}
	return g.leaf()
}

// tag: leaves are tagged secure often, composite fields rarely (a secure tag high up makes everything
// below it trivially secret and leaves few secure leaves below containers).
func (g *c17Gen) tag(t reflect.Type) reflect.StructTag {
	sec := 12
	switch kindName(t) {
	case "str", "int", "bytes", "time", "bool":
		sec = 40
	}
	switch x := g.r.Intn(100); {
	case x < sec:
		return c17TagSecure
	case x < sec+15:
		return c17TagIgnore
	}
	return ""
}

func (g *c17Gen) structT(depth int) reflect.Type {
	nf := 1 + g.r.Intn(3)
	if depth >= 5 {
		nf = 2 + g.r.Intn(3)
	}
	if depth <= 2 {
		nf = 1 + g.r.Intn(2)
	}
	fields := make([]reflect.StructField, nf)
	for i := range fields {
		ft := g.typ(depth - 1)
		fields[i] = reflect.StructField{Name: fmt.Sprintf("F%d", i), Type: ft, Tag: g.tag(ft)}
	}
	return reflect.StructOf(fields)
}

// ---------------------------------------------------------------------------------------------------
// population: every secure leaf a unique canary, every other leaf a unique plain marker
// ---------------------------------------------------------------------------------------------------

type c17Leaf struct {
	N      int    `json:"n"`
	Secure bool   `json:"secure"`
	Kind   string `json:"kind"` // str int bytes time
	// Path is the abstract path: the type constructors from the root to the leaf's parent (S struct field,
	// P pointer, L slice, M map, A interface), ':' and the terminal (for a secure leaf: "sec-<kind of the tagged field>").
	Path  string `json:"path"`
	Full  string `json:"full"`
	Place string `json:"place"`
}

type c17St struct {
	sec     bool
	cons    string
	secPath string
	full    string
	depth   int
}

type c17Pop struct {
	r      *rand.Rand
	g      *c17Gen
	n      *int
	place  string
	start  int
	budget int
	leaves []*c17Leaf
	feat   map[string]int
}

func kindName(t reflect.Type) string {
	switch t.Kind() {
	case reflect.String:
		return "str"
	case reflect.Int, reflect.Int64:
		return "int"
	case reflect.Bool:
		return "bool"
	case reflect.Ptr:
		return "P"
	case reflect.Map:
		return "M"
	case reflect.Interface:
		return "A"
	case reflect.Slice:
		if t.Elem().Kind() == reflect.Uint8 {
			return "bytes"
		}
		return "L"
	case reflect.Struct:
		if t == rwTimeType {
			return "time"
		}
		return "struct"
	}
	return t.Kind().String()
}

func (p *c17Pop) mark(v reflect.Value, kind string, st c17St) {
	*p.n++
	n := *p.n
	l := &c17Leaf{N: n, Secure: st.sec, Kind: kind, Full: st.full, Place: p.place}
	if st.sec {
		l.Path = st.secPath
	} else {
		l.Path = st.cons + ":" + kind
	}
	switch kind {
	case "str":
		pre := c17PlS
		if st.sec {
			pre = c17CanS
		}
		v.SetString(fmt.Sprintf("%s%05d", pre, n))
	case "int":
		base := c17PlI
		if st.sec {
			base = c17CanI
		}
		v.SetInt(base + int64(n))
	case "bytes":
		pre := c17PlB
		if st.sec {
			pre = c17CanB
		}
		v.SetBytes([]byte(fmt.Sprintf("%s%05d", pre, n)))
	case "time":
		base := c17PlT
		if st.sec {
			base = c17CanT
		}
		v.Set(reflect.ValueOf(base.Add(time.Duration(n) * time.Second)))
	}
	p.leaves = append(p.leaves, l)
}

func (p *c17Pop) over() bool { return *p.n-p.start >= p.budget }

func (p *c17Pop) fill(v reflect.Value, st c17St) {
	t := v.Type()
	switch kindName(t) {
	case "str", "int", "bytes", "time":
		if !p.over() {
			p.mark(v, kindName(t), st)
		}
		return
	case "bool":
		v.SetBool(true)
		return
	}
	if p.over() {
		return // composites stay zero
	}
	if t.Kind() == reflect.Struct {
		// struct types are finite (a recursive type needs a pointer, slice or map): always entered
		for i := 0; i < t.NumField(); i++ {
			f := t.Field(i)
			if !f.IsExported() {
				continue
			}
			fs := st
			fs.cons = st.cons + "S"
			fs.full = st.full + "." + f.Name
			fs.depth = st.depth - 1
			if f.Anonymous {
				p.feat["embedded"]++
			}
			if !st.sec && strings.Contains(strings.ToLower(f.Tag.Get("coerce")), "secure") {
				fs.sec = true
				fs.secPath = fs.cons + ":sec-" + kindName(f.Type)
				p.feat["secure_field_"+kindName(f.Type)]++
			}
			p.fill(v.Field(i), fs)
		}
		return
	}
	if st.depth <= 0 {
		return
	}
	sub := st
	sub.depth--
	switch t.Kind() {
	case reflect.Ptr:
		if p.r.Intn(100) < 7 {
			p.feat["nil_ptr"]++
			return
		}
		nv := reflect.New(t.Elem())
		sub.cons += "P"
		sub.full += "*"
		p.fill(nv.Elem(), sub)
		v.Set(nv)
	case reflect.Slice:
		x := p.r.Intn(100)
		if x < 4 {
			return
		}
		n := 1 + p.r.Intn(2)
		if x < 8 {
			n = 0
		}
		s := reflect.MakeSlice(t, n, n)
		sub.cons += "L"
		for i := 0; i < n; i++ {
			e := sub
			e.full = fmt.Sprintf("%s[%d]", st.full, i)
			p.fill(s.Index(i), e)
		}
		v.Set(s)
	case reflect.Map:
		x := p.r.Intn(100)
		if x < 4 {
			return
		}
		n := 1 + p.r.Intn(2)
		if x < 8 {
			n = 0
		}
		m := reflect.MakeMap(t)
		sub.cons += "M"
		for i := 0; i < n; i++ {
			e := sub
			e.full = fmt.Sprintf("%s[k%d]", st.full, i)
			ev := reflect.New(t.Elem()).Elem()
			p.fill(ev, e)
			m.SetMapIndex(reflect.ValueOf(fmt.Sprintf("k%d", i)).Convert(t.Key()), ev)
		}
		v.Set(m)
	case reflect.Interface:
		if p.r.Intn(100) < 7 {
			p.feat["nil_iface"]++
			return
		}
		var dt reflect.Type
		switch {
		case t.NumMethod() == 0:
			if p.r.Intn(3) == 0 {
				dt = c17Pool[p.r.Intn(4)]
			} else {
				for dt == nil || dt.Kind() == reflect.Interface {
					dt = p.g.typ(sub.depth)
				}
			}
		case t == c17TShower:
			dt = []reflect.Type{reflect.TypeOf(C17Item{}), reflect.TypeOf(&C17Item{})}[p.r.Intn(2)]
			p.feat["method_iface"]++
		default:
			return
		}
		nv := reflect.New(dt).Elem()
		sub.cons += "A"
		sub.full += fmt.Sprintf(".(%s)", kindName(dt))
		p.fill(nv, sub)
		v.Set(nv)
		p.feat["iface_holds_"+kindName(dt)]++
	}
}

// ---------------------------------------------------------------------------------------------------
// plan with the values placed
// ---------------------------------------------------------------------------------------------------

type C17Filler struct{ Info string }

type c17Handles struct {
	plan   *workflow.Plan
	block  *workflow.Block
	seq    *workflow.Sequence
	chk    *workflow.Checks
	seqAct *workflow.Action
	chkAct *workflow.Action
	slot   string
}

func c17UUID(r *rand.Rand) uuid.UUID {
	u, err := uuid.NewRandomFromReader(r)
	if err != nil {
		return workflow.NewV7()
	}
	return u
}

func c17State(r *rand.Rand) *workflow.State {
	sts := []workflow.Status{workflow.Running, workflow.Completed, workflow.Failed, workflow.Stopped, workflow.NotStarted}
	st := time.Unix(1700000000+r.Int63n(1000000), 0).UTC()
	return &workflow.State{Status: sts[r.Intn(len(sts))], Start: st, End: st.Add(time.Duration(r.Intn(1000)) * time.Second)}
}

var c17Slots = []string{"plan.Bypass", "plan.Pre", "plan.Cont", "plan.Post", "plan.Deferred", "block.Bypass", "block.Pre", "block.Cont", "block.Post", "block.Deferred"}

// c17BuildPlan builds an executed-looking plan; vals: seqReq chkReq seqResp chkResp.
func c17BuildPlan(r *rand.Rand, vals map[string]any, slot string, fillers int) *c17Handles {
	at := func(resp any, withErr bool) []*workflow.Attempt {
		t0 := time.Unix(1700000500, 0).UTC()
		var out []*workflow.Attempt
		if withErr {
			out = append(out, &workflow.Attempt{Err: &plugins.Error{Code: 3, Message: "transient failure", Wrapped: &plugins.Error{Message: "inner"}}, Start: t0, End: t0.Add(time.Second)})
		}
		out = append(out, &workflow.Attempt{Resp: resp, Start: t0.Add(2 * time.Second), End: t0.Add(3 * time.Second)})
		return out
	}
	action := func(name, plugin string, req, resp any, withErr bool) *workflow.Action {
		return &workflow.Action{ID: c17UUID(r), Name: name, Descr: "descr of " + name, Plugin: plugin, Timeout: 30 * time.Second, Retries: 2,
			Req: req, Attempts: at(resp, withErr), State: c17State(r)}
	}
	h := &c17Handles{slot: slot}
	h.seqAct = action("seq action", "c17/seq", vals["seqReq"], vals["seqResp"], fillers > 0)
	h.chkAct = action("check action", "c17/chk", vals["chkReq"], vals["chkResp"], false)
	h.seq = &workflow.Sequence{ID: c17UUID(r), Name: "seq", Descr: "sequence", State: c17State(r)}
	for i := 0; i < fillers/2; i++ {
		h.seq.Actions = append(h.seq.Actions, action(fmt.Sprintf("filler %d", i), "c17/seq", C17Filler{Info: "filler"}, C17Filler{Info: "filler resp"}, false))
	}
	h.seq.Actions = append(h.seq.Actions, h.seqAct)
	h.chk = &workflow.Checks{ID: c17UUID(r), Delay: time.Second, State: c17State(r), Actions: []*workflow.Action{h.chkAct}}
	if fillers%2 == 1 {
		h.chk.Actions = append([]*workflow.Action{action("filler check", "c17/chk", &C17Filler{Info: "filler"}, nil, false)}, h.chk.Actions...)
	}
	h.block = &workflow.Block{ID: c17UUID(r), Name: "block", Descr: "block", State: c17State(r), Concurrency: 1, Sequences: []*workflow.Sequence{h.seq}}
	if fillers >= 3 {
		h.block.Sequences = append(h.block.Sequences, &workflow.Sequence{ID: c17UUID(r), Name: "seq2", Descr: "sequence 2", State: c17State(r),
			Actions: []*workflow.Action{action("filler s2", "c17/seq", nil, nil, false)}})
	}
	h.plan = &workflow.Plan{ID: c17UUID(r), Name: "plan", Descr: "plan", Meta: []byte("meta"), State: c17State(r),
		SubmitTime: time.Unix(1700000000, 0).UTC(), Blocks: []*workflow.Block{h.block}}
	switch slot {
	case "plan.Bypass":
		h.plan.BypassChecks = h.chk
	case "plan.Pre":
		h.plan.PreChecks = h.chk
	case "plan.Cont":
		h.plan.ContChecks = h.chk
	case "plan.Post":
		h.plan.PostChecks = h.chk
	case "plan.Deferred":
		h.plan.DeferredChecks = h.chk
	case "block.Bypass":
		h.block.BypassChecks = h.chk
	case "block.Pre":
		h.block.PreChecks = h.chk
	case "block.Cont":
		h.block.ContChecks = h.chk
	case "block.Post":
		h.block.PostChecks = h.chk
	default:
		h.block.DeferredChecks = h.chk
	}
	return h
}

// ---------------------------------------------------------------------------------------------------
// surfaces
// ---------------------------------------------------------------------------------------------------

type c17Entry struct {
	name string
	orig func(h *c17Handles) any
	run  func(ctx context.Context, h *c17Handles, o ...clone.Option) any
}

var c17Entries = []c17Entry{
	{"Plan", func(h *c17Handles) any { return h.plan }, func(ctx context.Context, h *c17Handles, o ...clone.Option) any { return clone.Plan(ctx, h.plan, o...) }},
	{"Block", func(h *c17Handles) any { return h.block }, func(ctx context.Context, h *c17Handles, o ...clone.Option) any {
		return clone.Block(ctx, h.block, o...)
	}},
	{"Sequence", func(h *c17Handles) any { return h.seq }, func(ctx context.Context, h *c17Handles, o ...clone.Option) any {
		return clone.Sequence(ctx, h.seq, o...)
	}},
	{"Checks", func(h *c17Handles) any { return h.chk }, func(ctx context.Context, h *c17Handles, o ...clone.Option) any { return clone.Checks(ctx, h.chk, o...) }},
	{"Action", func(h *c17Handles) any { return h.seqAct }, func(ctx context.Context, h *c17Handles, o ...clone.Option) any {
		return clone.Action(ctx, h.seqAct, o...)
	}},
	{"Action", func(h *c17Handles) any { return h.chkAct }, func(ctx context.Context, h *c17Handles, o ...clone.Option) any {
		return clone.Action(ctx, h.chkAct, o...)
	}},
}

func c17EntryByName(name, place string) c17Entry {
	if name == "Action" && strings.HasPrefix(place, "chk") {
		return c17Entries[len(c17Entries)-1]
	}
	for _, e := range c17Entries {
		if e.name == name {
			return e
		}
	}
	return c17Entries[0]
}

// c17Render renders p and returns every file of the result.
func c17Render(ctx context.Context, p *workflow.Plan) (files map[string][]byte, err error) {
	fsys, err := reports.Render(ctx, p)
	if err != nil {
		return nil, err
	}
	files = map[string][]byte{}
	werr := fs.WalkDir(fsys, ".", func(path string, d fs.DirEntry, err error) error {
		if err != nil {
			return err
		}
		if d.IsDir() {
			return nil
		}
		b, err := fsys.ReadFile(path)
		if err != nil {
			return err
		}
		files[path] = b
		return nil
	})
	if werr != nil || len(files) == 0 {
		// the in-memory file system may not support directory listing through io/fs: fall back to the
		// file names Render is documented to produce
		files = map[string][]byte{}
		names := []string{"plan.html"}
		for _, lo := range liveObjects(p) {
			switch lo.kind {
			case "seq":
				names = append(names, fmt.Sprintf("sequences/%s.html", lo.seq.ID))
			case "action":
				names = append(names, fmt.Sprintf("actions/%s.html", lo.action.ID))
			}
		}
		for _, n := range names {
			b, err := fsys.ReadFile(n)
			if err != nil {
				return nil, fmt.Errorf("cannot list (%v) nor read %s: %w", werr, n, err)
			}
			files[n] = b
		}
	}
	return files, nil
}

// ---------------------------------------------------------------------------------------------------
// minimisation of a failing leaf to the shortest linear type that still fails (signature discriminator)
// ---------------------------------------------------------------------------------------------------

// c17Linear builds the linear type cons+term and a filler that plants marker n.
func c17Linear(cons string, i int, term string, secure bool, n int) (reflect.Type, func(v reflect.Value)) {
	if i == len(cons) {
		k := strings.TrimPrefix(term, "sec-")
		st := c17St{sec: secure}
		p := &c17Pop{n: new(int), budget: 10, feat: map[string]int{}}
		leaf := func(kind string) func(v reflect.Value) {
			return func(v reflect.Value) { *p.n = n - 1; p.mark(v, kind, st) }
		}
		switch k {
		case "str":
			return c17TString, leaf("str")
		case "int":
			return c17TInt, leaf("int")
		case "bytes":
			return c17TBytes, leaf("bytes")
		case "time":
			return rwTimeType, leaf("time")
		case "P":
			return reflect.PointerTo(c17TString), func(v reflect.Value) { nv := reflect.New(c17TString); leaf("str")(nv.Elem()); v.Set(nv) }
		case "L":
			return reflect.SliceOf(c17TString), func(v reflect.Value) { s := reflect.MakeSlice(v.Type(), 1, 1); leaf("str")(s.Index(0)); v.Set(s) }
		case "M":
			return reflect.MapOf(c17TString, c17TString), func(v reflect.Value) {
				m := reflect.MakeMap(v.Type())
				e := reflect.New(c17TString).Elem()
				leaf("str")(e)
				m.SetMapIndex(reflect.ValueOf("k"), e)
				v.Set(m)
			}
		case "A":
			return c17TAny, func(v reflect.Value) { e := reflect.New(c17TString).Elem(); leaf("str")(e); v.Set(e) }
		default: // struct
			t := reflect.StructOf([]reflect.StructField{{Name: "X", Type: c17TString}})
			return t, func(v reflect.Value) { leaf("str")(v.Field(0)) }
		}
	}
	inner, fillInner := c17Linear(cons, i+1, term, secure, n)
	switch cons[i] {
	case 'S':
		tag := reflect.StructTag("")
		if secure && i == len(cons)-1 {
			tag = c17TagSecure
		}
		t := reflect.StructOf([]reflect.StructField{{Name: "X", Type: inner, Tag: tag}})
		return t, func(v reflect.Value) { fillInner(v.Field(0)) }
	case 'P':
		return reflect.PointerTo(inner), func(v reflect.Value) { nv := reflect.New(inner); fillInner(nv.Elem()); v.Set(nv) }
	case 'L':
		return reflect.SliceOf(inner), func(v reflect.Value) { s := reflect.MakeSlice(v.Type(), 1, 1); fillInner(s.Index(0)); v.Set(s) }
	case 'M':
		return reflect.MapOf(c17TString, inner), func(v reflect.Value) {
			m := reflect.MakeMap(v.Type())
			e := reflect.New(inner).Elem()
			fillInner(e)
			m.SetMapIndex(reflect.ValueOf("k"), e)
			v.Set(m)
		}
	default: // 'A'
		return c17TAny, func(v reflect.Value) { e := reflect.New(inner).Elem(); fillInner(e); v.Set(e) }
	}
}

type c17Surface struct {
	name  string // clone | render
	entry string // clone entry point
	keep  bool   // WithKeepState
	place string // seqReq chkReq seqResp chkResp
}

func (s c17Surface) canonical() c17Surface {
	return c17Surface{name: s.name, entry: "Plan", keep: false, place: "seqReq"}
}

func (s c17Surface) qualifiers() string {
	var q []string
	if s.place != "seqReq" {
		q = append(q, "@"+s.place)
	}
	if s.name == "clone" {
		if s.entry != "Plan" {
			q = append(q, "via="+s.entry)
		}
		if s.keep {
			q = append(q, "keepstate")
		}
	}
	if len(q) == 0 {
		return ""
	}
	return " " + strings.Join(q, " ")
}

type c17Minimizer struct {
	ctx    context.Context
	cache  map[string]string // failing leaf class -> discriminator
	pcache map[string]bool   // probe -> result (the code under test is deterministic)
	probes int
}

var c17Min = &c17Minimizer{ctx: context.Background(), cache: map[string]string{}, pcache: map[string]bool{}}

func (m *c17Minimizer) probe(cons, term string, secure bool, sf c17Surface) bool {
	key := fmt.Sprintf("%s|%s|%v|%+v", cons, term, secure, sf)
	if b, ok := m.pcache[key]; ok {
		return b
	}
	b := m.probe1(cons, term, secure, sf)
	m.pcache[key] = b
	return b
}

// probe builds the linear type, places one marker and reports whether the oracle fails (secure: canary
// visible; plain: marker missing). A panic or an error is "not failing" here (reported separately).
func (m *c17Minimizer) probe1(cons, term string, secure bool, sf c17Surface) (bad bool) {
	m.probes++
	const n = 4242
	t, fill := c17Linear(cons, 0, term, secure, n)
	v := reflect.New(t).Elem()
	fill(v)
	var val any = v.Interface()
	r := rand.New(rand.NewSource(1))
	h := c17BuildPlan(r, map[string]any{sf.place: val}, "block.Pre", 0)
	found := newFound()
	safely(func() {
		switch sf.name {
		case "clone":
			var opts []clone.Option
			if sf.keep {
				opts = append(opts, clone.WithKeepState())
			}
			e := c17EntryByName(sf.entry, sf.place)
			// is the value inside this entry's object at all?
			ob, err := json.Marshal(e.orig(h))
			if err != nil {
				return
			}
			of := newFound()
			c17Scan(ob, of)
			if !of.can[n] && !of.plain[n] {
				return
			}
			out := e.run(m.ctx, h, opts...)
			b, err := json.Marshal(out)
			if err != nil {
				return
			}
			c17Scan(b, found)
			bad = (secure && found.can[n]) || (!secure && !found.plain[n])
		case "render":
			files, err := c17Render(m.ctx, h.plan)
			if err != nil {
				return
			}
			for _, b := range files {
				c17ScanFile(m.ctx, b, found)
			}
			bad = secure && found.can[n]
		}
	})
	return bad
}

func c17Candidates(cons string, secure bool) []string {
	set := map[string]bool{}
	n := len(cons)
	if n > 12 {
		// too long to enumerate: only prefixes-suffix combinations
		n = 12
		cons = cons[len(cons)-12:]
		if cons[0] != 'S' && !strings.HasPrefix(cons, "PS") {
			cons = "S" + cons
			n++
		}
	}
	for mask := 1; mask < 1<<n; mask++ {
		var sb strings.Builder
		for i := 0; i < n; i++ {
			if mask&(1<<i) != 0 {
				sb.WriteByte(cons[i])
			}
		}
		c := sb.String()
		if c[0] != 'S' && !strings.HasPrefix(c, "PS") {
			continue // requests are structs or pointers to structs
		}
		if secure && c[len(c)-1] != 'S' {
			continue // the tag lives on a struct field
		}
		set[c] = true
	}
	out := make([]string, 0, len(set))
	for c := range set {
		out = append(out, c)
	}
	sort.Slice(out, func(i, j int) bool {
		if len(out[i]) != len(out[j]) {
			return len(out[i]) < len(out[j])
		}
		return out[i] < out[j]
	})
	return out
}

// minimize returns the discriminator of a failing leaf: the shortest linear type (constructor string and
// terminal) that fails the same way, preferring the canonical surface configuration; "nomin:…" if the
// failure needs more than a linear type (siblings, named types, embedding).
func (m *c17Minimizer) minimize(l *c17Leaf, sf c17Surface, root string) string {
	key := fmt.Sprintf("%s|%s|%v|%s|%s|%v", sf.name, sf.entry, sf.keep, sf.place, l.Path, l.Secure)
	if d, ok := m.cache[key]; ok {
		return d
	}
	i := strings.LastIndex(l.Path, ":")
	cons, term := l.Path[:i], l.Path[i+1:]
	cands := c17Candidates(cons, l.Secure)
	simple := "str"
	if l.Secure {
		simple = "sec-str"
	}
	terms := []string{simple}
	if term != simple {
		terms = append(terms, term)
	}
	// surface configurations from the canonical one towards the observed one, fewest deviations first, so
	// that the signature names only the deviations the failure needs
	canon := sf.canonical()
	var surfaces []c17Surface
	for _, mask := range []int{0, 1, 2, 4, 3, 5, 6, 7} {
		s := canon
		if mask&1 != 0 {
			s.entry = sf.entry
		}
		if mask&2 != 0 {
			s.place = sf.place
		}
		if mask&4 != 0 {
			s.keep = sf.keep
		}
		if strings.HasSuffix(s.place, "Resp") && !s.keep && s.name == "clone" {
			continue // attempts only exist in the clone under WithKeepState
		}
		dup := false
		for _, x := range surfaces {
			dup = dup || x == s
		}
		if !dup {
			surfaces = append(surfaces, s)
		}
	}
	d := ""
search:
	for _, s := range surfaces {
		for _, t := range terms {
			for _, c := range cands {
				if m.probe(c, t, l.Secure, s) {
					d = c + ":" + t + s.qualifiers()
					break search
				}
			}
		}
	}
	if d == "" {
		if len(root) > 0 && !strings.HasPrefix(root, "struct") && !strings.HasPrefix(root, "*struct") {
			d = "nomin:" + root + ":" + l.Path + sf.qualifiers()
		} else {
			d = "nomin:" + l.Path + sf.qualifiers()
		}
	}
	m.cache[key] = d
	return d
}

// ---------------------------------------------------------------------------------------------------
// registry clause
// ---------------------------------------------------------------------------------------------------

// copy of plugins/registry/registry.go secretRE (used to classify names, never to decide the verdict of
// generated types: those use names from the two fixed lists below)
var c17SecretRE = regexp.MustCompile(`(?i)(token|pass|jwt|hash|secret|bearer|cred|secure|signing|cert|code|key)`)

var c17SecretNames = []string{"Password", "APIKey", "AuthToken", "Passcode", "MySecret", "JWT", "HashSum", "ClientCert", "Bearer",
	"Credentials", "SigningBlob", "ErrCode", "Keys", "SecureValue", "TOKEN", "Xpassx"}

type c17Plug struct {
	name      string
	req, resp func() any
}

func (p *c17Plug) Name() string { return p.name }
func (p *c17Plug) Execute(ctx context.Context, req any) (any, *plugins.Error) {
	return nil, nil
}
func (p *c17Plug) ValidateReq(req any) error { return nil }
func (p *c17Plug) Request() any              { return p.req() }
func (p *c17Plug) Response() any             { return p.resp() }
func (p *c17Plug) IsCheck() bool             { return false }
func (p *c17Plug) RetryPolicy() exponential.Policy {
	return exponential.Policy{InitialInterval: time.Millisecond, Multiplier: 1.1, MaxInterval: 2 * time.Millisecond}
}
func (p *c17Plug) Init() error { return nil }

// c17RegBuild builds, for the placement chain steps[i:], the type and a constructor of the "empty" object:
// V struct value, P pointer to struct (non-nil in the object), N pointer to struct (nil in the object),
// L slice of struct (one element), M map to struct (one entry), A interface holding the struct, Q **struct.
func c17RegBuild(g *c17Gen, steps string, i int, inner reflect.Type) (reflect.Type, func() reflect.Value) {
	if i == len(steps) {
		return inner, func() reflect.Value { return reflect.New(inner).Elem() }
	}
	sub, mk := c17RegBuild(g, steps, i+1, inner)
	var ft reflect.Type
	var set func(f reflect.Value)
	switch steps[i] {
	case 'V':
		ft, set = sub, func(f reflect.Value) { f.Set(mk()) }
	case 'P':
		ft, set = reflect.PointerTo(sub), func(f reflect.Value) { nv := reflect.New(sub); nv.Elem().Set(mk()); f.Set(nv) }
	case 'N':
		ft, set = reflect.PointerTo(sub), func(f reflect.Value) {}
	case 'L':
		ft, set = reflect.SliceOf(sub), func(f reflect.Value) { s := reflect.MakeSlice(f.Type(), 1, 1); s.Index(0).Set(mk()); f.Set(s) }
	case 'M':
		ft, set = reflect.MapOf(c17TString, sub), func(f reflect.Value) {
			m := reflect.MakeMap(f.Type())
			m.SetMapIndex(reflect.ValueOf("k"), mk())
			f.Set(m)
		}
	case 'A':
		ft, set = c17TAny, func(f reflect.Value) { f.Set(mk()) }
	default: // Q
		ft, set = reflect.PointerTo(reflect.PointerTo(sub)), func(f reflect.Value) {
			nv := reflect.New(sub)
			nv.Elem().Set(mk())
			pp := reflect.New(nv.Type())
			pp.Elem().Set(nv)
			f.Set(pp)
		}
	}
	fields := []reflect.StructField{{Name: "F0", Type: g.leaf()}, {Name: "Sub", Type: ft}}
	if g.r.Intn(2) == 0 {
		ft2 := g.typ(2)
		fields = append(fields, reflect.StructField{Name: "F2", Type: ft2, Tag: g.tag(ft2)})
	}
	g.r.Shuffle(len(fields), func(a, b int) { fields[a], fields[b] = fields[b], fields[a] })
	t := reflect.StructOf(fields)
	return t, func() reflect.Value {
		v := reflect.New(t).Elem()
		set(v.FieldByName("Sub"))
		return v
	}
}

type c17RegCase struct {
	Steps  string `json:"steps"`
	Root   string `json:"root"` // value ptr nilptr
	Tag    string `json:"tag"`  // none secure ignore
	Name   string `json:"name"`
	Side   string `json:"side"` // req resp
	Type   string `json:"type"`
	Demand bool   `json:"demanded"`
}

func c17RegObject(rootKind string, t reflect.Type, mk func() reflect.Value) func() any {
	return func() any {
		switch rootKind {
		case "value":
			return mk().Interface()
		case "ptr":
			nv := reflect.New(t)
			nv.Elem().Set(mk())
			return nv.Interface()
		}
		return reflect.Zero(reflect.PointerTo(t)).Interface()
	}
}

func c17Register(side string, obj func() any) (err error, pclass, pfull string) {
	neutral := func() any { return C17Filler{} }
	p := &c17Plug{name: "c17/plugin", req: neutral, resp: neutral}
	if side == "req" {
		p.req = obj
	} else {
		p.resp = obj
	}
	pclass, pfull = safely(func() { err = plugreg.New().Register(p) })
	return
}

func c17RegistryProbe(r *rand.Rand, g *c17Gen, res *CaseResult, add func(rule, disc, f string, a ...any)) *c17RegCase {
	rc := &c17RegCase{}
	kinds := "VVVVVPPPPPNNNNLMAQ"
	for i, n := 0, r.Intn(4); i < n; i++ {
		rc.Steps += string(kinds[r.Intn(len(kinds))])
	}
	rc.Root = []string{"value", "value", "value", "ptr", "ptr", "ptr", "nilptr"}[r.Intn(7)]
	rc.Tag = []string{"none", "none", "secure", "ignore"}[r.Intn(4)]
	rc.Name = c17SecretNames[r.Intn(len(c17SecretNames))]
	rc.Side = []string{"req", "resp"}[r.Intn(2)]
	tag := reflect.StructTag("")
	switch rc.Tag {
	case "secure":
		tag = c17TagSecure
	case "ignore":
		tag = c17TagIgnore
	}
	secretT := []reflect.Type{c17TString, c17TString, c17TBytes, c17TInt, reflect.PointerTo(c17TString)}[r.Intn(5)]
	fields := []reflect.StructField{{Name: "F0", Type: g.leaf()}, {Name: rc.Name, Type: secretT, Tag: tag}}
	if r.Intn(2) == 0 {
		ft2 := g.typ(2)
		fields = append(fields, reflect.StructField{Name: "F2", Type: ft2, Tag: g.tag(ft2)})
	}
	r.Shuffle(len(fields), func(a, b int) { fields[a], fields[b] = fields[b], fields[a] })
	inner := reflect.StructOf(fields)
	t, mk := c17RegBuild(g, rc.Steps, 0, inner)
	rc.Type = t.String()
	if len(rc.Type) > 500 {
		rc.Type = rc.Type[:500] + "…"
	}
	rc.Demand = strings.Trim(rc.Steps, "VPN") == ""
	obj := c17RegObject(rc.Root, t, mk)
	err, pclass, pfull := c17Register(rc.Side, obj)
	res.Events++
	if pclass != "" {
		add("panic", "registry.Register:"+pclass, "Register panicked on a %s %s (chain %q, root %s, tag %s): %s", rc.Side, rc.Type, rc.Steps, rc.Root, rc.Tag, pfull)
		return rc
	}
	// the same field (name, type, tag) in simpler placements: the discriminator is the simplest placement
	// that misbehaves the same way, else the class of the observed one
	simpler := func(wantErr bool) string {
		for _, alt := range []struct{ steps, class string }{{"", "top-level"}, {"V", "nested-V"}, {"P", "nested-P"}} {
			if alt.steps == rc.Steps && rc.Root == "value" {
				break
			}
			ga := &c17Gen{r: rand.New(rand.NewSource(1))}
			at, amk := c17RegBuild(ga, alt.steps, 0, inner)
			aerr, apc, _ := c17Register("req", c17RegObject("value", at, amk))
			res.Events++
			if apc == "" && (aerr != nil) != wantErr {
				return alt.class
			}
		}
		return ""
	}
	class := func() string {
		if strings.Contains(rc.Steps, "N") || rc.Root == "nilptr" {
			return "behind-nil-pointer"
		}
		if rc.Steps == "" {
			return "top-level"
		}
		set := ""
		for _, k := range "VPLMAQ" {
			if strings.ContainsRune(rc.Steps, k) {
				set += string(k)
			}
		}
		return "nested-" + set
	}
	sideQual := func(wantErr bool) string {
		// the same type on the other side: if it misbehaves there as well the side is not the cause
		other := "resp"
		if rc.Side == "resp" {
			other = "req"
		}
		oerr, opc, _ := c17Register(other, obj)
		res.Events++
		if opc == "" && (oerr != nil) != wantErr {
			return ""
		}
		return " " + rc.Side + "-only"
	}
	switch {
	case rc.Tag == "none" && rc.Demand:
		res.Counters["registry_untagged_demanded"]++
		if err == nil {
			d := simpler(true)
			if d == "" {
				d = class() + sideQual(true)
			}
			add("registry-accepts-untagged", d, "Register accepted a plugin whose %s type has the untagged secret-looking field %q (chain %q: V struct value, P pointer, N pointer that is nil in the returned object; root %s): %s",
				rc.Side, rc.Name, rc.Steps, rc.Root, rc.Type)
		}
	case rc.Tag == "none":
		// below a slice, map, interface or **T: the statement does not clearly include it
		if err == nil {
			res.Counters["info_registry_untagged_below_container_accepted"]++
		} else {
			res.Counters["info_registry_untagged_below_container_refused"]++
		}
	default:
		res.Counters["registry_tagged"]++
		if err != nil {
			d := simpler(false)
			if d == "" {
				d = class() + sideQual(false)
			}
			add("registry-refuses-tagged", rc.Tag+":"+d, "Register refused a plugin whose secret-looking field %q carries coerce:%q (chain %q, root %s, %s): %v", rc.Name, rc.Tag, rc.Steps, rc.Root, rc.Type, err)
		}
	}
	return rc
}

// c17RegistryNamed registers one hand-written type: all of C17H* carry a tag on every secret-looking name
// (must register), C17R* have an untagged Password reachable through embedding (must be refused).
func c17RegistryNamed(r *rand.Rand, res *CaseResult, add func(rule, disc, f string, a ...any)) {
	bad := []reflect.Type{reflect.TypeOf(C17R01{}), reflect.TypeOf(C17R02{})}
	k := r.Intn(len(c17Named) + 2*len(bad))
	var t reflect.Type
	wantErr := false
	if k < len(c17Named) {
		t = c17Named[k]
	} else {
		t = bad[(k-len(c17Named))%len(bad)]
		wantErr = true
	}
	asPtr := r.Intn(2) == 0
	side := []string{"req", "resp"}[r.Intn(2)]
	obj := func() any {
		if asPtr {
			return reflect.New(t).Interface()
		}
		return reflect.New(t).Elem().Interface()
	}
	err, pclass, pfull := c17Register(side, obj)
	res.Events++
	res.Counters["registry_named"]++
	switch {
	case pclass != "":
		add("panic", "registry.Register:"+pclass, "Register panicked on %s: %s", t, pfull)
	case wantErr && err == nil:
		d := "embedded-struct"
		if t == bad[1] {
			d = "behind-nil-pointer"
		}
		add("registry-accepts-untagged", d, "Register accepted %s (as %s, pointer=%v) although its embedded %s has the untagged field Password", t, side, asPtr, bad[0].Field(0).Type)
	case !wantErr && err != nil:
		add("registry-refuses-tagged", "named:"+t.Name(), "Register refused %s although every secret-looking field carries a tag: %v", t, err)
	}
}

// ---------------------------------------------------------------------------------------------------
// the case
// ---------------------------------------------------------------------------------------------------

const c17Budget = 90

func trunc17(s string, n int) string {
	if len(s) > n {
		return s[:n] + "…"
	}
	return s
}

func c17Run(c *Ctx, idx int) CaseResult {
	ctx := context.Background()
	r := gen.Rand(c.Seed, "C17", idx)
	res := CaseResult{Counters: map[string]int{}}
	seen := map[string]bool{}
	add := func(rule, disc, f string, a ...any) {
		v := ev.V("C17", rule, disc, f, a...)
		if seen[v.Sig] {
			return
		}
		seen[v.Sig] = true
		res.Viols = append(res.Viols, v)
	}
	g := &c17Gen{r: r}

	// two root types: A for the sequence request and the check response, B for the check request and the
	// sequence response
	type rootT struct {
		t     reflect.Type
		named bool
	}
	pick := func() rootT {
		if r.Intn(4) == 0 {
			return rootT{c17Named[r.Intn(len(c17Named))], true}
		}
		return rootT{g.structT(5), false}
	}
	roots := map[string]rootT{}
	ta, tb := pick(), pick()
	roots["seqReq"], roots["chkResp"], roots["chkReq"], roots["seqResp"] = ta, ta, tb, tb
	counter := 0
	feat := map[string]int{}
	vals := map[string]any{}
	var leaves []*c17Leaf
	rootName := map[string]string{}
	places := []string{"seqReq", "chkReq", "seqResp", "chkResp"}
	for _, place := range places {
		rt := roots[place]
		p := &c17Pop{r: r, g: g, n: &counter, place: place, start: counter, budget: c17Budget, feat: feat}
		depth := 5
		if rt.named {
			depth = 7
			res.Counters["named_root"]++
			res.Counters["named:"+rt.t.Name()]++
		}
		asPtr := r.Intn(2) == 0
		pv := reflect.New(rt.t)
		st := c17St{depth: depth, full: place}
		if asPtr {
			st.cons = "P"
			st.full += "*"
		}
		p.fill(pv.Elem(), st)
		if asPtr {
			vals[place] = pv.Interface()
		} else {
			vals[place] = pv.Elem().Interface()
		}
		leaves = append(leaves, p.leaves...)
		rootName[place] = rt.t.Name()
		if rootName[place] == "" {
			rootName[place] = "struct"
		}
	}
	byN := map[int]*c17Leaf{}
	secPaths := map[string]bool{}
	nSec, nPlain, deepSec := 0, 0, 0
	for _, l := range leaves {
		byN[l.N] = l
		if l.Secure {
			nSec++
			secPaths[l.Path] = true
			if strings.ContainsAny(l.Path[:strings.Index(l.Path, ":")], "PLMA") {
				deepSec++
			}
		} else {
			nPlain++
		}
	}
	for k, v := range feat {
		res.Counters["feat_"+k] += v
	}
	res.Counters["secure_leaves"] += nSec
	res.Counters["plain_leaves"] += nPlain
	var sp []string
	for p := range secPaths {
		sp = append(sp, p)
		for _, k := range "PLMA" {
			if strings.ContainsRune(p[:strings.Index(p, ":")], k) {
				res.Counters["secure_below_"+string(k)]++
			}
		}
	}
	sort.Strings(sp)
	if deepSec > 0 {
		res.Nontriv = hashStr(strings.Join(sp, "|"))
	}
	slot := c17Slots[r.Intn(len(c17Slots))]
	h := c17BuildPlan(r, vals, slot, []int{0, 0, 1, 2, 3}[r.Intn(5)])
	typeDescr := map[string]string{"A": trunc17(ta.t.String(), 700), "B": trunc17(tb.t.String(), 700)}
	if idx < 4 {
		res.Sample = map[string]any{"types": typeDescr, "check_slot": slot, "secure_paths": sp, "secure_leaves": nSec, "plain_leaves": nPlain}
	}
	witness := map[string]any{"types": typeDescr, "check_slot": slot}
	var badLeaves []any
	noteLeaf := func(l *c17Leaf, what string) {
		if len(badLeaves) < 12 {
			badLeaves = append(badLeaves, map[string]any{"leaf": l, "what": what})
		}
	}

	// ---- clone surfaces
	fp0 := fingerprintOf(h.plan)
	panicked := map[string]bool{}
	type obsPanic struct{ entry, api, class, full string }
	var panics []obsPanic
	for _, keep := range []bool{false, true} {
		for _, e := range c17Entries {
			ob, err := json.Marshal(e.orig(h))
			if err != nil {
				res.Verdict, res.Note = "inconclusive", "cannot JSON-encode the original: "+err.Error()
				return res
			}
			inOrig := newFound()
			c17Scan(ob, inOrig)
			var opts []clone.Option
			api := "clone." + e.name
			if keep {
				opts = append(opts, clone.WithKeepState())
				api += "+WithKeepState"
			}
			var out any
			pclass, pfull := safely(func() { out = e.run(ctx, h, opts...) })
			res.Events++
			if fp := fingerprintOf(h.plan); fp != fp0 {
				add("original-changed", "clone."+e.name, "%s changed the plan it was given (deep snapshot before/after differs)", api)
				fp0 = fp
			}
			if pclass != "" {
				if !panicked[pclass] {
					panicked[pclass] = true
					panics = append(panics, obsPanic{e.name, api, pclass, pfull})
				}
				res.Counters["clone_panics"]++
				continue
			}
			b, err := json.Marshal(out)
			if err != nil {
				res.Verdict, res.Note = "inconclusive", "cannot JSON-encode the clone: "+err.Error()
				return res
			}
			found := newFound()
			c17Scan(b, found)
			sf := c17Surface{name: "clone", entry: e.name, keep: keep}
			var ns []int
			for n := range found.can {
				ns = append(ns, n)
			}
			sort.Ints(ns)
			for _, n := range ns {
				l := byN[n]
				res.Events++
				if l == nil {
					continue
				}
				sf.place = l.Place
				d := c17Min.minimize(l, sf, rootName[l.Place])
				add("leak", "clone:"+d, "%s: the value of secure-tagged %s (%s leaf, abstract path %s) is present in the JSON encoding of the clone", api, l.Full, l.Kind, l.Path)
				noteLeaf(l, "leaked through "+api)
			}
			// untagged data intact
			ns = ns[:0]
			for n := range inOrig.plain {
				ns = append(ns, n)
			}
			sort.Ints(ns)
			for _, n := range ns {
				l := byN[n]
				if l == nil {
					continue
				}
				if !keep && strings.HasSuffix(l.Place, "Resp") {
					continue // attempts are engine state, stripped by default
				}
				res.Events++
				if !found.plain[n] {
					sf.place = l.Place
					d := c17Min.minimize(l, sf, rootName[l.Place])
					add("plain-lost", "clone:"+d, "%s: the untagged value at %s (%s leaf, abstract path %s) is missing from the clone", api, l.Full, l.Kind, l.Path)
					noteLeaf(l, "untagged value lost by "+api)
				}
			}
		}
	}

	// A panic is attributed to clone.Plan (which contains every placed value) whenever clone.Plan panics the
	// same way on a plan holding just one of the four values, so that one defect has one signature whichever
	// entry point happened to hit it first; otherwise to the entry point that panicked.
	if len(panics) > 0 {
		viaPlan := map[string]bool{}
		for _, place := range places {
			for _, keep := range []bool{false, true} {
				hp := c17BuildPlan(rand.New(rand.NewSource(1)), map[string]any{place: vals[place]}, "block.Pre", 0)
				var opts []clone.Option
				if keep {
					opts = append(opts, clone.WithKeepState())
				}
				pc, _ := safely(func() { clone.Plan(ctx, hp.plan, opts...) })
				res.Events++
				if pc != "" {
					viaPlan[pc] = true
				}
			}
		}
		for _, op := range panics {
			entry := op.entry
			if viaPlan[op.class] {
				entry = "Plan"
			}
			add("panic", "clone."+entry+":"+op.class, "%s panicked: %s", op.api, trunc17(op.full, 400))
		}
	}

	// ---- rendered report (may alter its argument: last)
	var files map[string][]byte
	var rerr error
	pclass, pfull := safely(func() { files, rerr = c17Render(ctx, h.plan) })
	res.Events++
	switch {
	case pclass != "":
		add("panic", "reports.Render:"+pclass, "reports.Render panicked: %s", trunc17(pfull, 400))
	case rerr != nil:
		res.Counters["render_errors"]++
		if len(res.Viols) == 0 {
			res.Verdict, res.Note = "inconclusive", "reports.Render returned an error: "+rerr.Error()
		}
	default:
		res.Counters["rendered_files"] += len(files)
		found := newFound()
		where := map[int]string{}
		var names []string
		for name := range files {
			names = append(names, name)
		}
		sort.Strings(names)
		for _, name := range names {
			f := newFound()
			c17ScanFile(ctx, files[name], f)
			for n := range f.can {
				if !found.can[n] {
					found.can[n] = true
					where[n] = name
				}
			}
		}
		var ns []int
		for n := range found.can {
			ns = append(ns, n)
		}
		sort.Ints(ns)
		res.Events += nSec
		for _, n := range ns {
			l := byN[n]
			if l == nil {
				continue
			}
			d := c17Min.minimize(l, c17Surface{name: "render", entry: "Plan", place: l.Place}, rootName[l.Place])
			kind := "actions/<id>.html"
			if !strings.HasPrefix(where[n], "actions/") {
				kind = where[n]
			}
			add("leak", "render:"+d, "reports.Render: the value of secure-tagged %s (%s leaf, abstract path %s) is present in file %s of the report", l.Full, l.Kind, l.Path, kind)
			noteLeaf(l, "rendered in "+kind)
		}
	}

	// ---- registry clause
	var regs []*c17RegCase
	for i := 0; i < 3; i++ {
		before := len(res.Viols)
		rc := c17RegistryProbe(r, g, &res, add)
		if len(res.Viols) > before {
			regs = append(regs, rc)
		}
	}
	c17RegistryNamed(r, &res, add)

	if len(res.Viols) > 0 {
		witness["leaves"] = badLeaves
		witness["registry"] = regs
		witness["secure_paths"] = sp
		res.Witness = witness
	}
	return res
}

func init() {
	register(&Prop{
		ID: "C17", Level: "exploration", Batch: 40, PerCaseTimeout: 30 * time.Second,
		Rule: "case i = PRNG(seed,i): two request/response types, each either generated from the grammar T ::= struct{F…} | *T | []T | map[string]T | any(T) | leaf " +
			"(reflect.StructOf/SliceOf/MapOf/PointerTo, depth <= 5, exported fields, tag none/secure/ignore, leaves string/int/bool/[]byte/time.Time) or one of 21 hand-written named types " +
			"(embedding, named slice/map/string types, method interfaces, generics, **T, *[]T, *map, *any, [][]T, map[string][]any, recursive, secure-tagged composites); four populated values " +
			"(unique canary in every leaf below a secure tag, unique plain marker elsewhere) placed as Req of a sequence action and of a check action (random check slot) and as Resp of their attempts " +
			"in an executed-looking plan; surfaces = JSON of clone.Plan/Block/Sequence/Checks/Action x {default, WithKeepState} and every file of reports.Render; plus three generated and one hand-written " +
			"registry probes (secret-looking field name x tag x placement chain). A failing leaf is reduced to the shortest linear type that fails the same way (signature). " +
			"Non-trivial: at least one secure leaf lies below a pointer, slice, map or interface; distinct by hash of the set of abstract secure paths",
		Cases:           nCases(1000, 30000),
		Run:             c17Run,
		DiedIsViolation: true,
		MinNontrivial:   30,
		Assumptions: []string{
			"Go arrays, unexported fields, non-JSON-serialisable values and custom marshalers are not generated (documented exceptions of clone.Secure)",
			"requests/responses are structs or pointers to structs; bool leaves are populated but cannot carry a marker",
			"registry placements below slices, maps, interfaces or **T are run and counted (info_registry_*) but never reported: the statement does not clearly include them",
			"reports.Render is documented to alter its argument and is exempt from the original-unchanged clause",
		},
	})
}
