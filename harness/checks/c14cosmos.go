package checks

import (
	"fmt"
	"time"

	"github.com/element-of-surprise/coercion/workflow"
	"github.com/element-of-surprise/coercion/workflow/context"
	"github.com/element-of-surprise/coercion/workflow/storage"
	"github.com/element-of-surprise/coercion/workflow/storage/cosmosdb"
	"github.com/google/uuid"

	"verifharness/internal/ev"
	"verifharness/internal/gen"
	"verifharness/internal/plug"
	"verifharness/internal/store"
)

// ---------- process death inside Create on the cosmosdb vault ----------
//
// A Create on cosmosdb is several client writes (the transactional batch with the plan's documents, the batch with
// its entry in the search partition). The hook's write gate lets exactly k of them through and blocks the caller for
// good — the process died between two client writes. A second vault over the same storage is the next process; for
// it the plan must either be complete (readable and equal to what was submitted) or have left no trace: Read fails,
// Exists is false, no raw document and no search entry carry its id, List and Search by id do not return it. k ranges
// over every client write of the Create (k = all of them: Create returns and the plan must be complete).
func c14CosmosDeath(c *Ctx, idx int) CaseResult {
	ctx := context.Background()
	r := gen.Rand(c.Seed, "C14cosmos", idx)
	res := CaseResult{Counters: map[string]int{}}
	add := func(rule, disc, f string, a ...any) {
		res.Viols = append(res.Viols, ev.V("C14", "cosmos-fake/"+rule, disc, f, a...))
	}
	reg := store.Registry(plug.NewLog())
	cv := cosmosdb.NewVerifVault(reg)
	o := store.GenOpts{MaxBlocks: 2, MaxSeqs: 2, MaxActions: 2}
	do := store.DiffOpts{ActionsAsSet: true}
	type kept struct {
		id   uuid.UUID
		want *store.Node
	}
	var others []kept
	// a background plan; its Create also tells how many client writes a Create is
	w0, _ := cv.Writes()
	p0 := store.RandPlan(r, o)
	want0 := store.Canon(p0)
	if err := cv.Create(ctx, p0); err != nil {
		res.Verdict = "inconclusive"
		res.Note = "background Create failed: " + err.Error()
		return res
	}
	w1, _ := cv.Writes()
	n := int(w1 - w0)
	others = append(others, kept{p0.ID, want0})
	if n < 2 {
		res.Counters["cosmos_create_single_write"]++
	}
	var trace []string
	for k := 1; k <= n && len(res.Viols) == 0; k++ {
		p := store.RandPlan(r, o)
		want := store.Canon(p)
		id := p.ID
		cv.SetCutoff(int64(k))
		done := make(chan error, 1)
		go func() { done <- cv.Create(ctx, p) }()
		returned, blocked := false, false
		var cerr error
		deadline := time.Now().Add(20 * time.Second)
		for time.Now().Before(deadline) && !returned && !blocked {
			select {
			case cerr = <-done:
				returned = true
			case <-time.After(2 * time.Millisecond):
				if _, b := cv.Writes(); b > 0 && cv.Pending() == 0 {
					blocked = true
				}
			}
		}
		if !returned && !blocked {
			res.Verdict = "inconclusive"
			res.Note = fmt.Sprintf("Create neither returned nor reached the write gate within 20 s (k=%d of %d)", k, n)
			return res
		}
		res.Counters["cosmos_create_death_points"]++
		if blocked {
			res.Counters["cosmos_create_died_between_writes"]++
		}
		trace = append(trace, fmt.Sprintf("k=%d/%d returned=%v err=%v writes=%v", k, n, returned, cerr, cv.WriteLog()))
		// the next process
		v2 := cosmosdb.NewVerifVaultSharing(cv, reg)
		h2 := store.CosmosHandle(v2)
		got, err := v2.Read(ctx, id)
		switch {
		case err == nil && got != nil:
			if f, msg := store.Diff(want, store.Canon(got), do); msg != "" {
				add("partial-create-after-death", "readable-but-differs:"+f, "after the process died behind client write %d of %d of Create the plan is readable but differs from what was submitted: %s", k, n, msg)
			}
			if ok, eerr := v2.Exists(ctx, id); eerr == nil && !ok {
				add("partial-create-after-death", "readable-but-not-exists", "after the process died behind client write %d of %d of Create the plan is readable but Exists is false", k, n)
			}
			if returned && cerr == nil {
				others = append(others, kept{id, want})
			}
			res.Counters["cosmos_death_complete"]++
		default:
			if returned && cerr == nil {
				add("acked-plan-lost", "", "Create returned nil but the next process cannot read the plan: %v", err)
				break
			}
			if what, msg := noTrace(ctx, h2, id); what != "" {
				add("partial-create-after-death", what, "after the process died behind client write %d of %d of Create the plan is not readable (%v), yet %s", k, n, err, msg)
				break
			}
			// List and Search by id do not know it either
			for _, q := range []string{"List", "Search"} {
				var ch chan storage.Stream[storage.ListResult]
				var qerr error
				if q == "List" {
					ch, qerr = v2.List(ctx, 0)
				} else {
					ch, qerr = v2.Search(ctx, storage.Filters{ByIDs: []uuid.UUID{id}})
				}
				if qerr != nil {
					continue
				}
				recs, _, closed := drain(ch, 6*time.Second)
				if !closed {
					add("stream-not-closed", q+",after-death-in-create", "%s of the next process was not closed", q)
				}
				for _, rc := range recs {
					if rc.ID == id {
						add("partial-create-after-death", "listed:"+q, "after the process died behind client write %d of %d of Create the plan is not readable (%v), yet %s returns it", k, n, err, q)
					}
				}
			}
			res.Counters["cosmos_death_no_trace"]++
		}
		// the other plans are what they were
		for _, kp := range others {
			if kp.id == id {
				continue
			}
			g, err := v2.Read(ctx, kp.id)
			if err != nil {
				add("other-plan-damaged", "unreadable", "after a death inside the Create of another plan, plan %s can no longer be read: %v", kp.id, err)
				break
			}
			if f, msg := store.Diff(kp.want, store.Canon(g), do); msg != "" {
				add("other-plan-damaged", f, "after a death inside the Create of another plan a stored plan changed: %s", msg)
				break
			}
		}
		cv = v2
	}
	_ = workflow.NotStarted
	res.Nontriv = hashStr(fmt.Sprint("cosmos-death", n, trace))
	res.ISig = res.Nontriv
	res.Events = len(trace)
	if idx < 64 {
		res.Sample = map[string]any{"mode": "cosmosdb: process death between the client writes of Create", "client_writes_per_create": n, "trace": trace}
	}
	if len(res.Viols) > 0 {
		res.Witness = map[string]any{"trace": trace}
	}
	return res
}
