package checks

import (
	"fmt"
	"math/rand"
	"strings"
	"sync"
	"time"

	"verifharness/internal/crash"
	"verifharness/internal/ev"
	"verifharness/internal/gen"
	"verifharness/internal/oracle"
	"verifharness/internal/plug"
	"verifharness/internal/spec"
)

// Crash cases on the cosmosdb vault (fake client + verif hook): a process dies between two mutating client calls.
// What differs from sqlite is that UpdatePlan is two client writes (document patch, then search-entry replace) and
// that the vault has its own Recovery() to heal a crash between them.

// cosmosPlans: an older, short plan and (usually) a newer, longer one, both strictly sequential.
func cosmosPlans(r *rand.Rand) []*spec.Plan {
	mk := func(name string, blocks, seqs int) *spec.Plan {
		p := spec.Plan{Name: name}
		one := func(ok bool) *spec.Checks {
			return &spec.Checks{DelayUS: 500, Actions: []spec.Action{{Steps: step(ok, r.Intn(500))}}}
		}
		if r.Intn(3) == 0 {
			p.Pre = one(true)
		}
		if r.Intn(3) == 0 {
			p.Deferred = one(true)
		}
		for b := 0; b < blocks; b++ {
			blk := spec.Block{Conc: 1, Tol: 0}
			if r.Intn(4) == 0 {
				blk.Deferred = one(true)
			}
			if r.Intn(3) == 0 {
				// a continuous check that is re-run while the block executes; with a retry budget and a first
				// transient failure every run leaves two attempts behind that the next run has to clear
				a := spec.Action{Steps: step(true, r.Intn(400))}
				if r.Intn(2) == 0 {
					a.Retries = 1 + r.Intn(2)
					a.Steps = []plug.Step{{Out: plug.Transient, SleepUS: r.Intn(200)}, {Out: plug.OK, SleepUS: r.Intn(300)}, {Out: plug.Transient, SleepUS: r.Intn(200)}, {Out: plug.OK, SleepUS: r.Intn(300)}}
				}
				blk.Cont = &spec.Checks{DelayUS: 400 + r.Intn(600), Actions: []spec.Action{a}}
			}
			for s := 0; s < seqs; s++ {
				var sq spec.Seq
				// one action per sequence and per group: the fake ignores ORDER BY c.pos and hands the actions of a
				// sequence back in arbitrary order after a restart, which is the fake's limitation, not the vault's
				sq.Actions = append(sq.Actions, spec.Action{Steps: step(r.Intn(7) != 0, 300+r.Intn(700)), Retries: r.Intn(2)})
				blk.Seqs = append(blk.Seqs, sq)
			}
			p.Blocks = append(p.Blocks, blk)
		}
		p.AssignTags()
		return &p
	}
	plans := []*spec.Plan{mk("p0", 1, 1+r.Intn(2))}
	if r.Intn(4) != 0 {
		plans = append(plans, mk("p1", 1+r.Intn(2), 2+r.Intn(2)))
	}
	return plans
}

// cosmosFor adapts cosmosCrashCase to everyNth.
func cosmosFor(prop string) func(c *Ctx, idx int) CaseResult {
	return func(c *Ctx, idx int) CaseResult { return cosmosCrashCase(prop, c, idx) }
}

func cosmosCrashCase(prop string, c *Ctx, idx int) CaseResult {
	res := CaseResult{Counters: map[string]int{}}
	r := gen.Rand(c.Seed, "cosmoscrash", idx)
	plans := cosmosPlans(r)
	ref, err := crash.RunCosmos(plans, 0, 60*time.Second)
	if err != nil {
		res.Verdict, res.Note = "inconclusive", "uninterrupted cosmos run: "+err.Error()
		return res
	}
	W := len(ref.Writes)
	if W == 0 {
		res.Verdict, res.Note = "inconclusive", "no client writes recorded"
		return res
	}
	// crash points: the splits (thorough under C09/C10: up to 10 of them and 16 cuts in all, otherwise 6 and 12) of a plan update (document patched, search
	// entry not yet replaced) plus a PRNG sample of the others
	var ks []int
	if false { // every client write: too slow on the fake for a registered command (minutes per case under load)
		for k := 1; k <= W; k++ {
			ks = append(ks, k)
		}
	} else {
		seen := map[int]bool{}
		var splits []int
		for i := 1; i < W; i++ {
			if ref.Writes[i] == "batch:planSearch" && strings.HasPrefix(ref.Writes[i-1], "patch:") {
				splits = append(splits, i) // i writes go through: the patch is durable, the replace is not
			}
		}
		r.Shuffle(len(splits), func(a, b int) { splits[a], splits[b] = splits[b], splits[a] })
		maxSplits := 6
		if c.Tier == "thorough" && (prop == "C09" || prop == "C10") {
			maxSplits = 10
		}
		for _, k := range splits {
			if len(ks) < maxSplits {
				ks = append(ks, k)
				seen[k] = true
			}
		}
		want := 12
		if c.Tier == "thorough" && (prop == "C09" || prop == "C10") {
			want = 16 // splits plus a PRNG sample: one cut costs seconds on the fake
		}
		for len(ks) < min(want, W) {
			k := 1 + r.Intn(W)
			if !seen[k] {
				seen[k] = true
				ks = append(ks, k)
			}
		}
	}
	var mu sync.Mutex
	var first any
	doK := func(k int) {
		run, err := crash.RunCosmos(plans, int64(k), 60*time.Second)
		if err != nil {
			mu.Lock()
			res.Counters["cosmos_run_errors"]++
			mu.Unlock()
			return
		}
		rec := run.Reopen(20 * time.Second)
		mu.Lock()
		defer mu.Unlock()
		res.Counters["cosmos_crash_points"]++
		res.Events += len(rec.Events)
		if rec.NewErr != "" {
			if prop == "C10" {
				res.Viols = append(res.Viols, ev.V("C10", "cosmos/new-failed", "", "coercion.New failed on the store a dead process left behind (cut after client write %d): %s", k, rec.NewErr))
			}
			return
		}
		for i, ps := range plans {
			sk := rec.Snapshots[i]
			if sk == nil {
				continue
			}
			id := run.IDs[i].String()
			t := oracle.Project(rec.Events, id, -1)
			var vs []ev.Violation
			res.Counters["cosmos_sk_"+stName(sk.Status("P"))]++
			switch {
			case prop == "C05":
				// the attempt record of every action in the plan the next process ends with
				if rec.Finals[i] != nil {
					for _, v := range oracle.Consistency("C05", ps, t, rec.Finals[i], false) {
						if strings.HasPrefix(v.Sig, "C05/action-status/") {
							vs = append(vs, v)
						}
					}
				}
			case prop == "C11":
				// only plans durably Running are considered: anything else is exactly as the dead process left it
				if sk.Status("P") == spec.Running {
					// ... and a plan durably Running IS considered: the next process resumes it (it was active moments
					// ago, far inside the default maximum age), so it does not stay Running
					if fp := rec.Finals[i]; !rec.Returned[i] || fp == nil || !isTerminal(fp.Status("P")) {
						st := "unreadable"
						if fp != nil {
							st = stName(fp.Status("P"))
						}
						vs = append(vs, ev.V("C11", "running-not-considered", st, "the plan document was durably Running when the process died; the next process did not resume it (waited for: %v, plan now %s)", rec.Returned[i], st))
					}
				} else {
					if len(t.Invs) > 0 {
						vs = append(vs, ev.V("C11", "not-running-executed", stName(sk.Status("P")), "the plan document was durably %s when the process died, yet %s was invoked after restart", stName(sk.Status("P")), t.Invs[0].Tag))
					} else if fp := rec.Finals[i]; fp != nil {
						if fp.Reason != sk.Reason {
							vs = append(vs, ev.V("C11", "not-running-modified", "reason,"+stName(sk.Status("P")), "the plan document was durably %s (reason %d) when the process died, after the next start-up its reason is %d", stName(sk.Status("P")), sk.Reason, fp.Reason))
						}
						for _, o := range fp.Objs {
							if b := sk.Get(o.Addr); b != nil && (b.Status != o.Status || b.Start != o.Start || b.End != o.End) {
								vs = append(vs, ev.V("C11", "not-running-modified", o.Kind+","+stName(sk.Status("P")), "the plan document was durably %s when the process died, yet after the next start-up %s %s went from %s [%d,%d] to %s [%d,%d]", stName(sk.Status("P")), o.Kind, o.Addr, stName(b.Status), b.Start, b.End, stName(o.Status), o.Start, o.End))
								break
							}
						}
					}
				}
			case sk.Status("P") == spec.Running:
				if prop == "C09" {
					vs = c09Oracle(ps, sk, t)
				} else {
					rc := &crash.Recovery{Returned: rec.Returned[i], Final: rec.Finals[i], Events: rec.Events}
					capRef := &crash.Captured{Spec: ps, Ref: ref.Finals[i]}
					cmp := !hasFailingCont(ps) && expectedFailed(ps) == (ref.Finals[i].Status("P") == spec.Failed)
					vs = c10Oracle(ps, capRef, sk, rc, t, cmp)
				}
			case isTerminal(sk.Status("P")):
				if prop == "C09" && len(t.Invs) > 0 {
					vs = append(vs, ev.V("C09", "finished-plan-rerun", stName(sk.Status("P")), "the plan document was durably %s when the process died, yet %s was invoked after restart", stName(sk.Status("P")), t.Invs[0].Tag))
				} else if prop == "C09" && rec.Finals[i] != nil {
					// a re-run that invokes nothing (everything below already finished) still moves the plan's state
					for _, o := range rec.Finals[i].Objs {
						if b := sk.Get(o.Addr); b != nil && (b.Status != o.Status || b.Start != o.Start || b.End != o.End) {
							vs = append(vs, ev.V("C09", "finished-plan-rerun", "state-changed,"+stName(sk.Status("P")), "the plan document was durably %s when the process died, yet after restart %s %s went from %s [%d,%d] to %s [%d,%d]: the finished plan was run again", stName(sk.Status("P")), o.Kind, o.Addr, stName(b.Status), b.Start, b.End, stName(o.Status), o.Start, o.End))
							break
						}
					}
				}
				if prop == "C10" && rec.Finals[i] != nil {
					for _, o := range rec.Finals[i].Objs {
						if o.Status == spec.Running {
							vs = append(vs, ev.V("C10", "terminal-at-crash-left-running", o.Kind+",cosmos", "the plan document is durably %s but %s %s is Running after the next start-up", stName(sk.Status("P")), o.Kind, o.Addr))
							break
						}
					}
				}
			}
			for j := range vs {
				vs[j].Sig = strings.Replace(vs[j].Sig, prop+"/", prop+"/cosmos/", 1)
				vs[j].Msg = fmt.Sprintf("[cosmosdb, cut after client write %d of %d: %s] ", k, W, lastWrites(run.Writes)) + vs[j].Msg
			}
			if len(vs) > 0 && first == nil {
				first = map[string]any{"goroutines_at_hang": rec.Dump, "cut_after_write": k, "writes_that_went_through": run.Writes, "durable_state": describeSk(sk), "final": rec.Finals[i], "recovery_events": rec.Events}
			}
			res.Viols = append(res.Viols, vs...)
		}
	}
	kc := make(chan int)
	var wg sync.WaitGroup
	for w := 0; w < 4; w++ {
		wg.Add(1)
		go func() {
			defer wg.Done()
			for k := range kc {
				doK(k)
			}
		}()
	}
	for _, k := range ks {
		kc <- k
	}
	close(kc)
	wg.Wait()
	res.Nontriv = hashStr(fmt.Sprint("cosmos", plans, ks))
	res.ISig = res.Nontriv
	if idx%20 == 0 || c.Tier != "thorough" {
		res.Sample = map[string]any{"mode": "cosmosdb vault: process death between two client writes, next process recovers", "plans": plans, "client_writes": W, "crash_points": ks}
	}
	if len(res.Viols) > 0 {
		res.Witness = map[string]any{"plans": plans, "first": first}
	}
	return res
}

func lastWrites(w []string) string {
	n := len(w)
	from := max(0, n-2)
	var out []string
	for _, x := range w[from:] {
		if len(x) > 14 {
			x = x[:14] + "…"
		}
		out = append(out, x)
	}
	return strings.Join(out, ", ")
}

var _ = plug.OK
