package checks

import (
	"fmt"
	"math/rand"
	"sort"
	"sync"
	"sync/atomic"
	"time"

	"github.com/element-of-surprise/coercion/workflow"
	"github.com/element-of-surprise/coercion/workflow/context"
	"github.com/element-of-surprise/coercion/workflow/storage"
	"github.com/google/uuid"

	"verifharness/internal/ev"
	"verifharness/internal/gen"
	"verifharness/internal/store"
)

// ---------- C15 under concurrency: queries racing with writers ----------
//
// Writers (each owns its plans, as the engine does) create plans, change their status and delete them while query
// goroutines call List / Search / Exists. Every call is recorded at the harness boundary with a logical call and
// return stamp from one counter. The oracle is interval based and only demands what every linearization demands:
//   - a plan whose Create returned before the query was called and whose Delete was not called before the query
//     returned ("definitely there") is listed exactly once / exists; a plan whose Create was called after the query
//     returned or whose Delete returned before the query was called ("definitely gone") is not listed / does not exist;
//   - the status shown for a listed plan is one the plan could have had between the query's call and return (the last
//     status written before the call, or any status whose write overlaps the query);
//   - a status search returns a definitely-there plan all of whose possible statuses are asked for, and no plan none of
//     whose possible statuses is asked for;
//   - results are ordered newest submission first; every stream is closed; no error elements.
// The race detector watches the readers against the writers meanwhile.

type c15write struct {
	call, ret int64 // ret == 0: still in flight when the history ended
	status    workflow.Status
}

type c15plan struct {
	id                 uuid.UUID
	submit             time.Time
	createCall, create int64 // create == 0: Create never returned successfully
	delCall, del       int64 // 0: not called / not returned
	writes             []c15write
}

func (p *c15plan) definitelyThere(call, ret int64) bool {
	return p.create != 0 && p.create < call && (p.delCall == 0 || p.delCall > ret)
}

func (p *c15plan) definitelyGone(call, ret int64) bool {
	return p.createCall > ret || (p.del != 0 && p.del < call)
}

// possible returns the statuses the plan may show to a query spanning [call, ret].
func (p *c15plan) possible(call, ret int64) map[workflow.Status]bool {
	out := map[workflow.Status]bool{}
	last := -1
	for i, w := range p.writes {
		if w.ret != 0 && w.ret < call {
			last = i
		}
	}
	if last >= 0 {
		out[p.writes[last].status] = true
	}
	for i, w := range p.writes {
		if i > last && w.call < ret {
			out[w.status] = true
		}
	}
	return out
}

func c15Concurrent(c *Ctx, idx int) CaseResult {
	ctx := context.Background()
	r := gen.Rand(c.Seed, "C15conc", idx)
	kinds := []string{"sqlite-mem", "sqlite-file", "cosmos-fake"}
	kind := kinds[(idx/12)%len(kinds)]
	res := CaseResult{Counters: map[string]int{}}
	h, err := openVault(ctx, kind, c.Scratch, idx)
	if err != nil {
		res.Verdict = "inconclusive"
		res.Note = "open vault: " + err.Error()
		return res
	}
	var vmu sync.Mutex
	add := func(rule, disc, f string, a ...any) {
		vmu.Lock()
		defer vmu.Unlock()
		res.Viols = append(res.Viols, ev.V("C15", kind+"/concurrent/"+rule, disc, f, a...))
	}
	const wd = 10 * time.Second
	var clock atomic.Int64
	tick := func() int64 { return clock.Add(1) }

	var pmu sync.Mutex // guards the plan records (harness state only; never held across a vault call)
	var plans []*c15plan
	base := time.Unix(1700000000, 0).UTC()
	var nsub atomic.Int64
	statuses := []workflow.Status{workflow.NotStarted, workflow.Running, workflow.Completed, workflow.Failed}

	nWriters, nQueriers := 2, 3
	opsW, opsQ := 10+r.Intn(8), 14+r.Intn(10)
	if kind == "cosmos-fake" {
		opsW, opsQ = 6, 8
	}
	seeds := make([]int64, nWriters+nQueriers)
	for i := range seeds {
		seeds[i] = r.Int63()
	}
	stop := make(chan struct{})
	var wg sync.WaitGroup
	var nOps atomic.Int64

	writer := func(w int) {
		defer wg.Done()
		wr := rand.New(rand.NewSource(seeds[w]))
		var mine []*c15plan
		live := map[*c15plan]*workflow.Plan{}
		for op := 0; op < opsW; op++ {
			nOps.Add(1)
			switch k := wr.Intn(10); {
			case k < 4 || len(live) == 0:
				p := store.RandPlan(wr, store.GenOpts{MaxBlocks: 1, MaxSeqs: 1, MaxActions: 1})
				p.SubmitTime = base.Add(time.Duration(wr.Intn(1000000))*time.Second + time.Duration(nsub.Add(1))*time.Nanosecond)
				p.State.Status = statuses[wr.Intn(len(statuses))]
				pr := &c15plan{id: p.ID, submit: p.SubmitTime}
				pmu.Lock()
				pr.createCall = tick()
				pr.writes = append(pr.writes, c15write{call: pr.createCall, status: p.State.Status})
				plans = append(plans, pr)
				pmu.Unlock()
				err := h.Vault.Create(ctx, p)
				pmu.Lock()
				if err == nil {
					pr.create = tick()
					pr.writes[0].ret = pr.create
				}
				pmu.Unlock()
				if err != nil {
					add("create-error", "", "Create failed next to concurrent queries: %v", err)
					return
				}
				lp, err := h.Vault.Read(ctx, p.ID)
				if err != nil {
					add("read-error", "", "Read of a plan just created failed next to concurrent queries: %v", err)
					return
				}
				live[pr] = lp
				mine = append(mine, pr)
			case k < 8:
				var pr *c15plan
				for _, q := range mine {
					if live[q] != nil && (pr == nil || wr.Intn(2) == 0) {
						pr = q
					}
				}
				lp := live[pr]
				lp.State.Status = statuses[wr.Intn(len(statuses))]
				pmu.Lock()
				pr.writes = append(pr.writes, c15write{call: tick(), status: lp.State.Status})
				wi := len(pr.writes) - 1
				pmu.Unlock()
				err := h.Vault.UpdatePlan(ctx, lp)
				pmu.Lock()
				if err == nil {
					pr.writes[wi].ret = tick()
				}
				pmu.Unlock()
				if err != nil {
					add("update-error", "", "UpdatePlan failed next to concurrent queries: %v", err)
					return
				}
			default:
				var pr *c15plan
				for _, q := range mine {
					if live[q] != nil {
						pr = q
						break
					}
				}
				pmu.Lock()
				pr.delCall = tick()
				pmu.Unlock()
				err := h.Vault.Delete(ctx, pr.id)
				pmu.Lock()
				if err == nil {
					pr.del = tick()
				}
				pmu.Unlock()
				delete(live, pr)
				if err != nil {
					add("delete-error", "", "Delete failed next to concurrent queries: %v", err)
					return
				}
			}
		}
	}

	type listed struct {
		id     uuid.UUID
		status workflow.Status
		submit time.Time
	}
	check := func(what string, byStatus []workflow.Status, call, ret int64, got []listed) {
		pmu.Lock()
		defer pmu.Unlock()
		seen := map[uuid.UUID]int{}
		for _, g := range got {
			seen[g.id]++
		}
		asked := map[workflow.Status]bool{}
		for _, s := range byStatus {
			asked[s] = true
		}
		byID := map[uuid.UUID]*c15plan{}
		for _, p := range plans {
			byID[p.id] = p
			poss := p.possible(call, ret)
			allAsked, noneAsked := true, true
			for s := range poss {
				if asked[s] {
					noneAsked = false
				} else {
					allAsked = false
				}
			}
			if byStatus == nil {
				allAsked, noneAsked = true, false
			}
			switch {
			case seen[p.id] > 1:
				add("duplicate", what, "%s returned plan %s %d times", what, p.id, seen[p.id])
			case p.definitelyThere(call, ret) && allAsked && seen[p.id] == 0:
				add("missing", what, "%s (call %d, return %d) did not return plan %s, which was created at %d, not deleted before %d, and whose status was in %v throughout", what, call, ret, p.id, p.create, p.delCall, poss)
			case p.definitelyGone(call, ret) && seen[p.id] > 0:
				add("phantom", what, "%s (call %d, return %d) returned plan %s (create called %d, delete returned %d)", what, call, ret, p.id, p.createCall, p.del)
			case byStatus != nil && noneAsked && seen[p.id] > 0 && len(poss) > 0:
				add("wrong-status-match", what, "%s for %v (call %d, return %d) returned plan %s whose status could only be %v", what, byStatus, call, ret, p.id, poss)
			}
		}
		for i, g := range got {
			p := byID[g.id]
			if p == nil {
				add("phantom", what+",unknown", "%s returned a plan id nobody created", what)
				continue
			}
			if poss := p.possible(call, ret); len(poss) > 0 && !poss[g.status] {
				add("stale-status", what, "%s (call %d, return %d) shows plan %s in status %d; between call and return it could only be %v", what, call, ret, p.id, g.status, poss)
			}
			if !g.submit.Equal(p.submit) {
				add("submit-time", what, "%s shows a different submit time for plan %s", what, p.id)
			}
			if kind != "cosmos-fake" && i > 0 && got[i-1].submit.Before(g.submit) {
				add("order", what, "%s: result %d is newer than result %d (newest first expected)", what, i, i-1)
			}
		}
	}

	querier := func(q int) {
		defer wg.Done()
		qr := rand.New(rand.NewSource(seeds[nWriters+q]))
		for op := 0; op < opsQ; op++ {
			select {
			case <-stop:
				return
			default:
			}
			nOps.Add(1)
			switch k := qr.Intn(3); {
			case k == 0:
				pmu.Lock()
				var p *c15plan
				if len(plans) > 0 {
					p = plans[qr.Intn(len(plans))]
				}
				pmu.Unlock()
				if p == nil {
					continue
				}
				call := tick()
				ok, err := h.Vault.Exists(ctx, p.id)
				ret := tick()
				if err != nil {
					add("exists-error", "", "Exists failed next to concurrent writers: %v", err)
					return
				}
				pmu.Lock()
				there, gone := p.definitelyThere(call, ret), p.definitelyGone(call, ret)
				pmu.Unlock()
				if there && !ok {
					add("exists", "false-for-present", "Exists (call %d, return %d) is false for a plan created at %d and not deleted before %d", call, ret, p.create, p.delCall)
				}
				if gone && ok {
					add("exists", "true-for-gone", "Exists (call %d, return %d) is true for a plan whose Delete returned at %d / Create was called at %d", call, ret, p.del, p.createCall)
				}
			default:
				var ch chan storage.Stream[storage.ListResult]
				var err error
				what := "List"
				var by []workflow.Status
				call := tick()
				if k == 1 || kind == "cosmos-fake" { // the fake does not evaluate status predicates
					ch, err = h.Vault.List(ctx, 0)
				} else {
					what = "Search"
					n := 1 + qr.Intn(3)
					perm := qr.Perm(len(statuses))
					for i := 0; i < n; i++ {
						by = append(by, statuses[perm[i]])
					}
					ch, err = h.Vault.Search(ctx, storage.Filters{ByStatus: by})
				}
				if err != nil {
					add("query-error", what, "%s failed next to concurrent writers: %v", what, err)
					return
				}
				var got []listed
				closed := false
				timer := time.NewTimer(wd)
			drainLoop:
				for {
					select {
					case s, ok := <-ch:
						if !ok {
							closed = true
							break drainLoop
						}
						if s.Err != nil {
							add("query-error", what+",element", "%s produced an error element next to concurrent writers: %v", what, s.Err)
							continue
						}
						st := workflow.Status(-1)
						if s.Result.State != nil {
							st = s.Result.State.Status
						}
						got = append(got, listed{id: s.Result.ID, status: st, submit: s.Result.SubmitTime})
						if !timer.Stop() {
							select {
							case <-timer.C:
							default:
							}
						}
						timer.Reset(wd)
					case <-timer.C:
						break drainLoop
					}
				}
				timer.Stop()
				ret := tick()
				if !closed {
					add("stream-not-closed", what, "the stream returned by %s next to concurrent writers stood still for %v after %d results without being closed", what, wd, len(got))
					return
				}
				check(what, by, call, ret, got)
			}
		}
	}

	wg.Add(nWriters + nQueriers)
	for w := 0; w < nWriters; w++ {
		go writer(w)
	}
	for q := 0; q < nQueriers; q++ {
		go querier(q)
	}
	done := make(chan struct{})
	go func() { wg.Wait(); close(done) }()
	// progress watchdog: the history is given up when no operation started for a while
	lastOps, still := int64(-1), 0
	hung := false
wait:
	for {
		select {
		case <-done:
			break wait
		case <-time.After(time.Second):
			if n := nOps.Load() + clock.Load(); n == lastOps {
				still++
			} else {
				lastOps, still = n, 0
			}
			if still >= 60 {
				hung = true
				break wait
			}
		}
	}
	close(stop)
	if hung {
		add("no-progress", "", "concurrent queries and writers made no progress for 60 s (%d logical events)", clock.Load())
	}
	// quiescent end state: one more List equals the model exactly
	if !hung && len(res.Viols) == 0 {
		call := tick()
		ch, err := h.Vault.List(ctx, 0)
		if err != nil {
			add("query-error", "final-List", "List after the history failed: %v", err)
		} else {
			gotr, errs, closed := drain(ch, wd)
			ret := tick()
			if !closed || len(errs) > 0 {
				add("stream-not-closed", "final-List", "List after the history: closed=%v errors=%v", closed, errs)
			} else {
				var got []listed
				for _, g := range gotr {
					got = append(got, listed{id: g.ID, status: g.Status, submit: g.Submit})
				}
				if kind == "cosmos-fake" {
					sort.Slice(got, func(i, j int) bool { return got[i].submit.After(got[j].submit) })
				}
				check("final List", nil, call, ret, got)
			}
		}
	}
	if kind == "sqlite-file" && !hung {
		closed := make(chan struct{})
		go func() { h.Vault.Close(ctx); close(closed) }()
		select {
		case <-closed:
		case <-time.After(wd):
		}
	}
	pmu.Lock()
	res.Events = int(clock.Load())
	res.Counters["concurrent_histories"]++
	res.Counters["concurrent_events"] += int(clock.Load())
	res.Counters["concurrent_plans"] += len(plans)
	sig := fmt.Sprint(kind, len(plans), clock.Load())
	pmu.Unlock()
	res.Nontriv = hashStr("conc" + sig + fmt.Sprint(idx))
	res.ISig = res.Nontriv
	if idx < 24 {
		res.Sample = map[string]any{"mode": "queries racing with writers", "vault": kind, "writers": nWriters, "queriers": nQueriers, "logical_events": clock.Load(), "plans": len(plans)}
	}
	if len(res.Viols) > 0 {
		res.Witness = map[string]any{"vault": kind, "logical_events": clock.Load()}
	}
	return res
}
