package checks

// C19 — walk.Plan visits every object exactly once, in execution order, with its chain of ancestors, and
// stops immediately when the consumer stops.
//
// Oracle: an independent recursive enumerator written from the property statement (c19Expected) produces
// the list of (object, ancestor chain). walk.Plan must yield exactly that list: same objects (pointer
// identity), same order, chains element-wise identical. Every yielded chain is copied at yield time AND the
// yielded slice itself is kept; both are re-compared after the walk so that chains which share a backing
// array and get overwritten by later items are noticed. For every stop position k the iterator is called
// with a yield function that returns false at its (k+1)-th call: it must have been called exactly k+1 times.

import (
	"fmt"
	"math/rand"
	"strings"
	"time"

	"github.com/element-of-surprise/coercion/workflow"
	"github.com/element-of-surprise/coercion/workflow/utils/walk"

	"verifharness/internal/ev"
	"verifharness/internal/gen"
)

// ---------------- shapes ----------------

// Slice codes: -1 = nil slice, 0 = empty non-nil slice, n > 0 = n elements.
// Group codes: c19Absent = the *Checks pointer is nil, otherwise the slice code of its Actions.
const c19Absent = -2

var c19GroupNames = [5]string{"BypassChecks", "PreChecks", "ContChecks", "PostChecks", "DeferredChecks"}

type c19Block struct {
	G    [5]int `json:"groups"` // group codes, order of c19GroupNames
	Seqs []int  `json:"seqs"`   // slice code of Actions per sequence
	SNil bool   `json:"seqs_nil"`
}

type c19Shape struct {
	G      [5]int     `json:"groups"`
	Blocks []c19Block `json:"blocks"`
	BNil   bool       `json:"blocks_nil"`
}

func (s c19Shape) String() string {
	var b strings.Builder
	fmt.Fprintf(&b, "P%v", s.G)
	if s.BNil {
		b.WriteString(" blocks=nil")
	}
	for _, bl := range s.Blocks {
		fmt.Fprintf(&b, " B%v", bl.G)
		if bl.SNil {
			b.WriteString("s=nil")
		} else {
			fmt.Fprintf(&b, "s=%v", bl.Seqs)
		}
	}
	return b.String()
}

func c19Actions(code int, name string) []*workflow.Action {
	switch {
	case code < 0:
		return nil
	case code == 0:
		return []*workflow.Action{}
	}
	out := make([]*workflow.Action, code)
	for i := range out {
		out[i] = &workflow.Action{Name: name, Descr: "d", Plugin: "p"}
	}
	return out
}

func c19Checks(code int, name string) *workflow.Checks {
	if code == c19Absent {
		return nil
	}
	return &workflow.Checks{Actions: c19Actions(code, name)}
}

var c19Names = map[string][]string{}

func init() {
	for _, pre := range []string{"b", "s"} {
		for i := 0; i < 16; i++ {
			c19Names[pre] = append(c19Names[pre], fmt.Sprintf("%s%d", pre, i))
		}
	}
}

func c19Name(pre string, i int) string {
	if i < 16 {
		return c19Names[pre][i]
	}
	return pre + "N"
}

func c19Build(s c19Shape) *workflow.Plan {
	p := &workflow.Plan{Name: "plan", Descr: "d"}
	p.BypassChecks = c19Checks(s.G[0], "plan.bypass")
	p.PreChecks = c19Checks(s.G[1], "plan.pre")
	p.ContChecks = c19Checks(s.G[2], "plan.cont")
	p.PostChecks = c19Checks(s.G[3], "plan.post")
	p.DeferredChecks = c19Checks(s.G[4], "plan.deferred")
	if !s.BNil {
		p.Blocks = make([]*workflow.Block, 0, len(s.Blocks))
	}
	for bi, bs := range s.Blocks {
		n := c19Name("b", bi)
		b := &workflow.Block{Name: n, Descr: "d"}
		b.BypassChecks = c19Checks(bs.G[0], "block.bypass")
		b.PreChecks = c19Checks(bs.G[1], "block.pre")
		b.ContChecks = c19Checks(bs.G[2], "block.cont")
		b.PostChecks = c19Checks(bs.G[3], "block.post")
		b.DeferredChecks = c19Checks(bs.G[4], "block.deferred")
		if !bs.SNil {
			b.Sequences = make([]*workflow.Sequence, 0, len(bs.Seqs))
		}
		for si, ac := range bs.Seqs {
			b.Sequences = append(b.Sequences, &workflow.Sequence{Name: c19Name("s", si), Descr: "d", Actions: c19Actions(ac, "seq")})
		}
		p.Blocks = append(p.Blocks, b)
	}
	return p
}

// ---- the finite box ----
//
// Box parameters: plan-level group subset (32) x blocks in {nil, [], 1, 2} x per block (group subset (32) x
// sequences in {nil, [], 1, 2}) x (Actions of every check group, Actions of every sequence), each in
// {nil, [], 1, 2}. Size 16 * 32 * (1 + 1 + 128 + 128*128) = 8 455 168 shapes of at most 60 objects.

const (
	c19BlockVariants = 32 * 4
	c19BlocksPart    = 1 + 1 + c19BlockVariants + c19BlockVariants*c19BlockVariants
	c19BoxSize       = 16 * 32 * c19BlocksPart
	c19Chunk         = 4096 // box shapes per thorough case
	c19BoxChunks     = (c19BoxSize + c19Chunk - 1) / c19Chunk
	c19QuickBox      = 2400
	c19QuickRandom   = 600
	c19ThoroughRand  = 4000
	c19AllStopsMax   = 60 // shapes with at most this many objects get every early-stop position
)

var c19ActionCodes = [4]int{-1, 0, 1, 2}

func c19Groups(subset int, actionCode int) [5]int {
	var g [5]int
	for i := range g {
		if subset&(1<<i) != 0 {
			g[i] = actionCode
		} else {
			g[i] = c19Absent
		}
	}
	return g
}

func c19BoxBlock(v int, aBlock, aSeq int) c19Block {
	subset, sc := v%32, v/32
	b := c19Block{G: c19Groups(subset, aBlock)}
	switch sc {
	case 0:
		b.SNil = true
	case 1:
	default:
		for i := 0; i < sc-1; i++ {
			b.Seqs = append(b.Seqs, aSeq)
		}
	}
	return b
}

// c19BoxShape decodes box index i (0 <= i < c19BoxSize).
func c19BoxShape(i int) c19Shape {
	a := i % 16
	i /= 16
	aGroup, aSeq := c19ActionCodes[a%4], c19ActionCodes[a/4]
	aPlan, aBlock := aGroup, aGroup
	ps := i % 32
	bp := i / 32
	s := c19Shape{G: c19Groups(ps, aPlan)}
	switch {
	case bp == 0:
		s.BNil = true
	case bp == 1:
	case bp < 2+c19BlockVariants:
		s.Blocks = []c19Block{c19BoxBlock(bp-2, aBlock, aSeq)}
	default:
		v := bp - 2 - c19BlockVariants
		s.Blocks = []c19Block{c19BoxBlock(v%c19BlockVariants, aBlock, aSeq), c19BoxBlock(v/c19BlockVariants, aBlock, aSeq)}
	}
	return s
}

// c19SampledBoxIndex draws a box index with every parameter uniform (so that the small strata — no blocks,
// one block — are as likely as the 16384 two-block variants).
func c19SampledBoxIndex(r *rand.Rand) int {
	a := r.Intn(16)
	ps := r.Intn(32)
	var bp int
	switch r.Intn(4) {
	case 0:
		bp = 0
	case 1:
		bp = 1
	case 2:
		bp = 2 + r.Intn(c19BlockVariants)
	default:
		bp = 2 + c19BlockVariants + r.Intn(c19BlockVariants*c19BlockVariants)
	}
	return (bp*32+ps)*16 + a
}

func c19SliceCode(r *rand.Rand, max int) int {
	switch x := r.Intn(max + 4); {
	case x == 0:
		return -1
	case x == 1:
		return 0
	case x > max:
		return max
	default:
		return x
	}
}

// c19RandomShape: larger shapes, every group / slice code drawn independently.
func c19RandomShape(r *rand.Rand) c19Shape {
	maxBlocks := 1 + r.Intn(7)
	maxSeqs := 1 + r.Intn(7)
	maxActs := 1 + r.Intn(5)
	pGroup := []float64{0.2, 0.5, 0.8, 1}[r.Intn(4)]
	grp := func() [5]int {
		var g [5]int
		for i := range g {
			if r.Float64() < pGroup {
				g[i] = c19SliceCode(r, maxActs)
			} else {
				g[i] = c19Absent
			}
		}
		return g
	}
	s := c19Shape{G: grp()}
	switch nb := c19SliceCode(r, maxBlocks); {
	case nb < 0:
		s.BNil = true
	default:
		for i := 0; i < nb; i++ {
			b := c19Block{G: grp()}
			switch ns := c19SliceCode(r, maxSeqs); {
			case ns < 0:
				b.SNil = true
			default:
				for j := 0; j < ns; j++ {
					b.Seqs = append(b.Seqs, c19SliceCode(r, maxActs))
				}
			}
			s.Blocks = append(s.Blocks, b)
		}
	}
	return s
}

// ---------------- reference enumeration ----------------

type c19Exp struct {
	obj   workflow.Object
	chain []workflow.Object
	role  string
}

// c19Expected lists (object, ancestors) in execution order, straight from the property statement.
func c19Expected(p *workflow.Plan) []c19Exp {
	out := make([]c19Exp, 0, 64)
	// chains of the reference may share memory: they are never written after construction
	group := func(c *workflow.Checks, role, actionRole string, anc []workflow.Object) {
		if c == nil {
			return
		}
		out = append(out, c19Exp{obj: c, chain: anc, role: role})
		if len(c.Actions) == 0 {
			return
		}
		ch := make([]workflow.Object, len(anc)+1)
		copy(ch, anc)
		ch[len(anc)] = c
		for _, a := range c.Actions {
			out = append(out, c19Exp{obj: a, chain: ch, role: actionRole})
		}
	}
	out = append(out, c19Exp{obj: p, chain: nil, role: "plan"})
	cp := []workflow.Object{p}
	group(p.BypassChecks, "plan.BypassChecks", "plan.BypassChecks.action", cp)
	group(p.PreChecks, "plan.PreChecks", "plan.PreChecks.action", cp)
	group(p.ContChecks, "plan.ContChecks", "plan.ContChecks.action", cp)
	for _, b := range p.Blocks {
		out = append(out, c19Exp{obj: b, chain: cp, role: "block"})
		cb := []workflow.Object{p, b}
		group(b.BypassChecks, "block.BypassChecks", "block.BypassChecks.action", cb)
		group(b.PreChecks, "block.PreChecks", "block.PreChecks.action", cb)
		group(b.ContChecks, "block.ContChecks", "block.ContChecks.action", cb)
		for _, s := range b.Sequences {
			out = append(out, c19Exp{obj: s, chain: cb, role: "sequence"})
			if len(s.Actions) == 0 {
				continue
			}
			cs := []workflow.Object{p, b, s}
			for _, a := range s.Actions {
				out = append(out, c19Exp{obj: a, chain: cs, role: "sequence.action"})
			}
		}
		group(b.PostChecks, "block.PostChecks", "block.PostChecks.action", cb)
		group(b.DeferredChecks, "block.DeferredChecks", "block.DeferredChecks.action", cb)
	}
	group(p.PostChecks, "plan.PostChecks", "plan.PostChecks.action", cp)
	group(p.DeferredChecks, "plan.DeferredChecks", "plan.DeferredChecks.action", cp)
	return out
}

// c19Class reduces a role to the small enumeration used in signatures: the level and kind of the object,
// not which of the five groups it is.
func c19Class(role string) string {
	for _, g := range c19GroupNames {
		role = strings.Replace(role, g, "Checks", 1)
	}
	return role
}

func c19ObjName(o workflow.Object) string {
	switch t := o.(type) {
	case nil:
		return "<nil>"
	case *workflow.Plan:
		return fmt.Sprintf("Plan(%p)", t)
	case *workflow.Checks:
		return fmt.Sprintf("Checks(%p)", t)
	case *workflow.Block:
		if t == nil {
			return "Block(nil)"
		}
		return fmt.Sprintf("Block %s(%p)", t.Name, t)
	case *workflow.Sequence:
		if t == nil {
			return "Sequence(nil)"
		}
		return fmt.Sprintf("Sequence %s(%p)", t.Name, t)
	case *workflow.Action:
		if t == nil {
			return "Action(nil)"
		}
		return fmt.Sprintf("Action %s(%p)", t.Name, t)
	}
	return fmt.Sprintf("%T", o)
}

// c19Describe renders the expected enumeration for a witness.
func c19Describe(exp []c19Exp) []string {
	out := make([]string, 0, len(exp))
	for i, e := range exp {
		if i >= 400 {
			out = append(out, "...")
			break
		}
		out = append(out, fmt.Sprintf("%d: %s %s chain=%s", i, e.role, c19ObjName(e.obj), c19ChainStr(e.chain)))
	}
	return out
}

func c19ChainStr(ch []workflow.Object) string {
	parts := make([]string, len(ch))
	for i, o := range ch {
		parts[i] = c19ObjName(o)
	}
	return "[" + strings.Join(parts, " > ") + "]"
}

func c19SameChain(a, b []workflow.Object) bool {
	if len(a) != len(b) {
		return false
	}
	for i := range a {
		if a[i] != b[i] {
			return false
		}
	}
	return true
}

// ---------------- one shape ----------------

type c19Got struct {
	val  workflow.Object
	kept []workflow.Object // the slice as yielded
	cp   []workflow.Object // copy taken at yield time
}

type c19Stats struct {
	events, objects, stops, fullWalks int
}

// c19CheckShape runs the whole oracle on one plan. stopAt lists the early-stop positions to try (nil = all).
func c19CheckShape(p *workflow.Plan, exp []c19Exp, stops []int, st *c19Stats) (viols []ev.Violation) {
	n := len(exp)
	st.objects += n
	role := func(o workflow.Object) string { // only used when reporting
		for _, e := range exp {
			if e.obj == o {
				return e.role
			}
		}
		return "foreign"
	}

	// full walk, exactly as a consumer would write it
	got := make([]c19Got, 0, n)
	func() {
		defer func() {
			if x := recover(); x != nil {
				viols = append(viols, ev.V("C19", "panic", "walk.Plan", "walk.Plan panicked during a complete walk after %d items: %v", len(got), x))
			}
		}()
		for it := range walk.Plan(p) {
			got = append(got, c19Got{val: it.Value, kept: it.Chain, cp: append([]workflow.Object(nil), it.Chain...)})
		}
	}()
	st.fullWalks++
	if len(viols) > 0 {
		return viols
	}
	for i := 0; i < len(got) || i < n; i++ {
		st.events++
		switch {
		case i >= len(got):
			return append(viols, ev.V("C19", "items", "exp="+c19Class(exp[i].role),
				"walk yielded %d items, expected %d: item %d (%s, role %s) and everything after it is missing", len(got), n, i, c19ObjName(exp[i].obj), exp[i].role))
		case i >= n:
			return append(viols, ev.V("C19", "items", "exp=none",
				"walk yielded %d items, expected %d: item %d (%s) is extra", len(got), n, i, c19ObjName(got[i].val)))
		case got[i].val != exp[i].obj:
			return append(viols, ev.V("C19", "items", "exp="+c19Class(exp[i].role),
				"item %d: walk yielded %s (role %s), execution order demands %s (role %s)", i, c19ObjName(got[i].val), role(got[i].val), c19ObjName(exp[i].obj), exp[i].role))
		case !c19SameChain(got[i].cp, exp[i].chain):
			return append(viols, ev.V("C19", "chain", c19Class(exp[i].role),
				"item %d (%s, role %s): chain at yield time %s, expected %s", i, c19ObjName(exp[i].obj), exp[i].role, c19ChainStr(got[i].cp), c19ChainStr(exp[i].chain)))
		}
	}
	// aliasing: the slices as they were yielded must still hold the same ancestors
	for i := range got {
		st.events++
		if !c19SameChain(got[i].kept, exp[i].chain) {
			return append(viols, ev.V("C19", "chain-aliased", c19Class(exp[i].role),
				"item %d (%s, role %s): its Chain was correct when yielded (%s) but reads %s after the walk finished: chains of different items share memory",
				i, c19ObjName(exp[i].obj), exp[i].role, c19ChainStr(got[i].cp), c19ChainStr(got[i].kept)))
		}
	}

	// early stops
	stopOne := func(k int) {
		calls := 0
		var bad *ev.Violation
		func() {
			defer func() {
				if x := recover(); x != nil {
					v := ev.V("C19", "panic", "walk.Plan", "walk.Plan panicked when the consumer stopped after %d items: %v", k+1, x)
					bad = &v
				}
			}()
			walk.Plan(p)(func(it walk.Item) bool {
				calls++
				st.events++
				if calls <= k+1 && bad == nil {
					e := exp[calls-1]
					if it.Value != e.obj {
						v := ev.V("C19", "items", "exp="+c19Class(e.role),
							"early-stop walk (stop after %d): item %d is %s, expected %s", k+1, calls-1, c19ObjName(it.Value), c19ObjName(e.obj))
						bad = &v
					} else if !c19SameChain(it.Chain, e.chain) {
						v := ev.V("C19", "chain", c19Class(e.role), "early-stop walk (stop after %d): item %d (%s) has chain %s, expected %s", k+1, calls-1, c19ObjName(e.obj), c19ChainStr(it.Chain), c19ChainStr(e.chain))
						bad = &v
					}
				}
				return calls < k+1
			})
		}()
		st.stops++
		if bad != nil {
			viols = append(viols, *bad)
			return
		}
		if calls != k+1 {
			what := "more"
			if calls < k+1 {
				what = "fewer"
			}
			viols = append(viols, ev.V("C19", "early-stop", what+",stop-at="+c19Class(exp[k].role),
				"consumer returned false at item %d (%s, role %s) of %d: the loop body was called %d times, expected exactly %d",
				k, c19ObjName(exp[k].obj), exp[k].role, n, calls, k+1))
		}
	}
	if stops == nil {
		for k := 0; k < n && len(viols) == 0; k++ {
			stopOne(k)
		}
	} else {
		for _, k := range stops {
			if k >= 0 && k < n && len(viols) == 0 {
				stopOne(k)
			}
		}
	}
	return viols
}

func c19Stops(r *rand.Rand, n int) []int {
	if n <= c19AllStopsMax {
		return nil
	}
	stops := []int{0, 1, n - 2, n - 1}
	for i := 0; i < 36; i++ {
		stops = append(stops, r.Intn(n))
	}
	return stops
}

var c19FeatureNames = []string{
	"plan_group_absent", "plan_group_actions_nil", "plan_group_actions_empty", "plan_group_actions_some",
	"block_group_absent", "block_group_actions_nil", "block_group_actions_empty", "block_group_actions_some",
	"seq_absent", "seq_actions_nil", "seq_actions_empty", "seq_actions_some",
	"blocks_nil", "blocks_empty", "blocks_some", "seqs_nil", "seqs_empty", "seqs_some",
}

// c19Features counts, per feature, the shapes that have it.
func c19Features(s c19Shape, cnt *[18]int) {
	var seen uint32
	code := func(base int, c int) {
		switch {
		case c == c19Absent:
			seen |= 1 << base
		case c < 0:
			seen |= 1 << (base + 1)
		case c == 0:
			seen |= 1 << (base + 2)
		default:
			seen |= 1 << (base + 3)
		}
	}
	for _, g := range s.G {
		code(0, g)
	}
	switch {
	case s.BNil:
		seen |= 1 << 12
	case len(s.Blocks) == 0:
		seen |= 1 << 13
	default:
		seen |= 1 << 14
	}
	for _, b := range s.Blocks {
		for _, g := range b.G {
			code(4, g)
		}
		switch {
		case b.SNil:
			seen |= 1 << 15
		case len(b.Seqs) == 0:
			seen |= 1 << 16
		default:
			seen |= 1 << 17
		}
		for _, a := range b.Seqs {
			code(8, a)
		}
	}
	for i := range cnt {
		if seen&(1<<i) != 0 {
			cnt[i]++
		}
	}
}

func c19Run(c *Ctx, idx int) CaseResult {
	res := CaseResult{Counters: map[string]int{}}
	r := gen.Rand(c.Seed, "C19", idx)
	var st c19Stats
	var sig strings.Builder
	var feat [18]int
	var nShapes, nAllStops, nNontriv int

	one := func(s c19Shape, kind string, boxIdx int) bool {
		p := c19Build(s)
		exp := c19Expected(p)
		n := len(exp)
		viols := c19CheckShape(p, exp, c19Stops(r, n), &st)
		nShapes++
		if n <= c19AllStopsMax {
			nAllStops++
		}
		c19Features(s, &feat)
		if n > 1 {
			nNontriv++
		}
		if len(viols) > 0 {
			res.Viols = append(res.Viols, viols...)
			res.Witness = map[string]any{"kind": kind, "expected_order": c19Describe(exp), "box_index": boxIdx, "shape": s, "shape_str": s.String(), "objects": n}
			return false
		}
		return true
	}

	nontrivial := false
	var sample any
	switch {
	case c.Tier == "thorough" && idx < c19BoxChunks:
		from, to := idx*c19Chunk, min((idx+1)*c19Chunk, c19BoxSize)
		for i := from; i < to; i++ {
			if !one(c19BoxShape(i), "box", i) {
				break
			}
		}
		fmt.Fprintf(&sig, "box[%d,%d)", from, to)
		nontrivial = true
		sample = map[string]any{"kind": "box chunk", "from": from, "to": to, "first": c19BoxShape(from).String(), "last": c19BoxShape(to - 1).String()}
	case c.Tier != "thorough" && idx < c19QuickBox:
		bi := c19SampledBoxIndex(r)
		s := c19BoxShape(bi)
		one(s, "box", bi)
		sig.WriteString(s.String())
		nontrivial = nNontriv > 0
		sample = map[string]any{"kind": "box sample", "box_index": bi, "shape": s.String(), "objects": st.objects}
	default:
		s := c19RandomShape(r)
		one(s, "random", -1)
		sig.WriteString(s.String())
		nontrivial = nNontriv > 0
		sample = map[string]any{"kind": "random", "shape": s.String(), "objects": st.objects}
	}
	res.Events = st.events
	kind := "random"
	if (c.Tier == "thorough" && idx < c19BoxChunks) || (c.Tier != "thorough" && idx < c19QuickBox) {
		kind = "box"
	}
	res.Counters["shapes"] = nShapes
	res.Counters["shapes_"+kind] = nShapes
	res.Counters["shapes_all_stop_positions"] = nAllStops
	res.Counters["shapes_nontrivial"] = nNontriv
	for i, k := range c19FeatureNames {
		if feat[i] > 0 {
			res.Counters["shapes_with_"+k] = feat[i]
		}
	}
	res.Counters["objects"] = st.objects
	res.Counters["early_stop_walks"] = st.stops
	res.Counters["full_walks"] = st.fullWalks
	if nontrivial {
		res.Nontriv = hashStr(sig.String())
	}
	firstRandom := c19QuickBox
	if c.Tier == "thorough" {
		firstRandom = c19BoxChunks
	}
	if idx < 2 || idx == firstRandom || idx == firstRandom+1 {
		res.Sample = sample
	}
	return res
}

func init() {
	register(&Prop{
		ID: "C19", Level: "exploration", Batch: 200, PerCaseTimeout: 20 * time.Second,
		Rule: "shape = which of the 5 check groups exist at plan level and per block, and nil / empty / n-element slices for Blocks, Sequences and every Actions list (no nil entries inside slices). " +
			"Finite box: plan group subset (32) x blocks {nil,[],1,2} x per block (group subset (32) x sequences {nil,[],1,2}) x Actions of all check groups {nil,[],1,2} x Actions of all sequences {nil,[],1,2}: " +
			fmt.Sprint(c19BoxSize) + " shapes of <= 60 objects. quick: 2400 box shapes drawn by PRNG(seed,i) with every parameter uniform + 600 PRNG shapes with up to 7 blocks x 7 sequences x 5 actions; " +
			"thorough: the box enumerated completely (" + fmt.Sprint(c19BoxChunks) + " cases of 4096 consecutive box indices) + 4000 PRNG larger shapes. " +
			"Per shape: one complete walk compared item by item with an independent enumeration (pointer identity, chains copied at yield time and the yielded slices re-read after the walk), " +
			"then one walk per early-stop position (all positions for shapes <= 60 objects, 40 positions otherwise) counting calls of the loop body. " +
			"non-trivial: the plan has at least one object besides itself; distinct by shape descriptor (thorough box cases: by chunk)",
		Cases: func(tier string) int {
			if tier == "thorough" {
				return c19BoxChunks + c19ThoroughRand
			}
			return c19QuickBox + c19QuickRandom
		},
		Run:           c19Run,
		MinNontrivial: 30,
		Exhaustive:    func(tier string) bool { return tier == "thorough" },
		Finish: func(tier string, counters map[string]int, cov map[string]any) string {
			cov["box_size"] = c19BoxSize
			if tier == "thorough" {
				cov["exhaustive_over"] = "the finite box described in the rule (not the unbounded space of plan shapes)"
				if counters["shapes_box"] != c19BoxSize {
					return fmt.Sprintf("box enumeration incomplete: %d of %d shapes", counters["shapes_box"], c19BoxSize)
				}
			}
			for _, k := range []string{"blocks_nil", "blocks_empty", "seqs_nil", "seqs_empty", "seq_actions_nil", "seq_actions_empty", "plan_group_absent", "plan_group_actions_nil", "plan_group_actions_empty", "block_group_absent", "block_group_actions_nil", "block_group_actions_empty"} {
				if counters["shapes_with_"+k] == 0 {
					return "no shape with " + k
				}
			}
			return ""
		},
		Assumptions: []string{"nil entries inside Blocks / Sequences / Actions and a nil plan are not generated (the statement does not speak about them)",
			"the walked plan is not modified while it is walked"},
	})
}
