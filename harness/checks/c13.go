package checks

import (
	"fmt"
	"math/rand"
	"path/filepath"
	"time"

	"github.com/element-of-surprise/coercion/workflow"
	"github.com/element-of-surprise/coercion/workflow/context"
	"github.com/element-of-surprise/coercion/workflow/utils/walk"
	"github.com/google/uuid"

	"verifharness/internal/ev"
	"verifharness/internal/gen"
	"verifharness/internal/plug"
	"verifharness/internal/store"
)

// cosmos (over its slow fake) gets one case in six
var vaultKinds = []string{"sqlite-mem", "sqlite-file", "sqlite-mem", "sqlite-file", "sqlite-mem", "cosmos-fake"}

func openVault(ctx context.Context, kind string, scratch string, idx int) (*store.Handle, error) {
	reg := store.Registry(plug.NewLog())
	switch kind {
	case "sqlite-mem":
		return store.NewSQLiteMem(ctx, reg)
	case "sqlite-file":
		return store.NewSQLiteFile(ctx, reg, filepath.Join(scratch, fmt.Sprintf("db-%d", idx)))
	case "cosmos-fake":
		return store.NewCosmosFake(ctx, reg)
	}
	return nil, fmt.Errorf("unknown vault kind %s", kind)
}

// withTimeout runs f with a watchdog; ok=false when it fired.
func withTimeout(d time.Duration, f func()) bool {
	done := make(chan struct{})
	go func() {
		defer close(done)
		f()
	}()
	select {
	case <-done:
		return true
	case <-time.After(d):
		return false
	}
}

type liveObj struct {
	kind   string
	plan   *workflow.Plan
	block  *workflow.Block
	checks *workflow.Checks
	seq    *workflow.Sequence
	action *workflow.Action
}

func liveObjects(p *workflow.Plan) []liveObj {
	var out []liveObj
	for it := range walk.Plan(p) {
		switch it.Value.Type() {
		case workflow.OTPlan:
			out = append(out, liveObj{kind: "plan", plan: it.Plan()})
		case workflow.OTBlock:
			out = append(out, liveObj{kind: "block", block: it.Block()})
		case workflow.OTCheck:
			out = append(out, liveObj{kind: "checks", checks: it.Checks()})
		case workflow.OTSequence:
			out = append(out, liveObj{kind: "seq", seq: it.Sequence()})
		case workflow.OTAction:
			out = append(out, liveObj{kind: "action", action: it.Action()})
		}
	}
	return out
}

func newState(r *rand.Rand) *workflow.State {
	sts := []workflow.Status{workflow.NotStarted, workflow.Running, workflow.Completed, workflow.Failed, workflow.Stopped}
	s := &workflow.State{Status: sts[r.Intn(len(sts))]}
	if r.Intn(4) != 0 {
		s.Start = time.Unix(1700000000+r.Int63n(1e7), r.Int63n(1e9)).UTC()
	}
	if r.Intn(3) != 0 {
		s.End = time.Unix(1700000000+r.Int63n(1e7), r.Int63n(1e9)).UTC()
	}
	return s
}

func c13Run(c *Ctx, idx int) CaseResult {
	ctx := context.Background()
	r := gen.Rand(c.Seed, "C13", idx)
	kind := vaultKinds[idx%len(vaultKinds)]
	res := CaseResult{Counters: map[string]int{}}
	h, err := openVault(ctx, kind, c.Scratch, idx)
	if err != nil {
		res.Verdict = "inconclusive"
		res.Note = "open vault: " + err.Error()
		return res
	}
	add := func(rule, disc, f string, a ...any) {
		res.Viols = append(res.Viols, ev.V("C13", kind+"/"+rule, disc, f, a...))
	}
	model := store.NewModel()
	do := store.DiffOpts{ActionsAsSet: h.ActionsAsSet}
	var ops []string
	live := map[string]*workflow.Plan{}
	var ids []uuid.UUID

	compare := func(id uuid.UUID, when string) bool {
		var got *workflow.Plan
		var err error
		if !withTimeout(30*time.Second, func() { got, err = h.Vault.Read(ctx, id) }) {
			add("read-hang", "", "Read(%s) did not return within 30 s %s", id, when)
			return false
		}
		want := model.Plans[id.String()]
		if want == nil {
			if err == nil {
				d := "never-created"
				if model.Deleted[id.String()] {
					d = "deleted"
				}
				add("read-missing-no-error", d, "Read of a %s id returned no error (plan=%v) %s", d, got != nil, when)
			}
			return true
		}
		if err != nil {
			add("read-error", "", "Read(%s) failed %s: %v", id, when, err)
			return false
		}
		if got == nil {
			add("read-nil", "", "Read(%s) returned nil plan and nil error %s", id, when)
			return false
		}
		res.Counters["reads_compared"]++
		if f, msg := store.Diff(want, store.Canon(got), do); msg != "" {
			add("field-lost", f, "%s: %s", when, msg)
			return false
		}
		return true
	}

	nPlans := 1 + r.Intn(3)
	o := store.GenOpts{MaxBlocks: 3, MaxSeqs: 3, MaxActions: 3}
	if kind == "cosmos-fake" {
		o = store.GenOpts{MaxBlocks: 2, MaxSeqs: 2, MaxActions: 2}
	}
	for i := 0; i < nPlans; i++ {
		o.Executed = r.Intn(2) == 0
		p := store.RandPlan(r, o)
		ops = append(ops, fmt.Sprintf("Create(plan %d, executed=%v, objects=%v)", i, o.Executed, store.Canon(p).Count(nil)))
		// the model is built from the plan as it is BEFORE the call: a vault may write into the plan it is given
		// (cosmosdb copies what it reads back), which would hide a lossy reader from a model built afterwards
		model.Create(p)
		if err := h.Vault.Create(ctx, p); err != nil {
			model.Delete(p.ID)
			delete(model.Deleted, p.ID.String())
			add("op-error", "Create", "Create failed: %v", err)
			continue
		}
		ids = append(ids, p.ID)
		if !compare(p.ID, "after Create") {
			continue
		}
		lp, err := h.Vault.Read(ctx, p.ID)
		if err != nil || lp == nil {
			continue
		}
		live[p.ID.String()] = lp
	}
	// unknown ids
	compare(store.NewV7(), "never created")
	compare(uuid.Nil, "nil uuid")

	nOps := 10 + r.Intn(40)
	if kind == "cosmos-fake" {
		nOps = 4 + r.Intn(8)
	}
	for k := 0; k < nOps && len(res.Viols) == 0 && len(ids) > 0; k++ {
		id := ids[r.Intn(len(ids))]
		lp := live[id.String()]
		if lp == nil {
			compare(id, "deleted plan")
			continue
		}
		objs := liveObjects(lp)
		ob := objs[r.Intn(len(objs))]
		var err error
		var opName string
		switch ob.kind {
		case "plan":
			ob.plan.State = mergeState(ob.plan.State, newState(r))
			ob.plan.Reason = []workflow.FailureReason{0, 100, 200, 300, 400, 450, 600}[r.Intn(7)]
			opName = "UpdatePlan"
			err = h.Vault.UpdatePlan(ctx, ob.plan)
			model.UpdatePlan(ob.plan)
		case "block":
			ob.block.State = mergeState(ob.block.State, newState(r))
			opName = "UpdateBlock"
			err = h.Vault.UpdateBlock(ctx, ob.block)
			model.UpdateState(ob.block.ID, ob.block.State)
		case "checks":
			ob.checks.State = mergeState(ob.checks.State, newState(r))
			opName = "UpdateChecks"
			err = h.Vault.UpdateChecks(ctx, ob.checks)
			model.UpdateState(ob.checks.ID, ob.checks.State)
		case "seq":
			ob.seq.State = mergeState(ob.seq.State, newState(r))
			opName = "UpdateSequence"
			err = h.Vault.UpdateSequence(ctx, ob.seq)
			model.UpdateState(ob.seq.ID, ob.seq.State)
		case "action":
			ob.action.State = mergeState(ob.action.State, newState(r))
			switch r.Intn(3) {
			case 0:
				ob.action.Attempts = nil
			case 1:
				ob.action.Attempts = append(ob.action.Attempts, store.RandAttempts(r, ob.action.Plugin, 1)...)
			default:
				ob.action.Attempts = store.RandAttempts(r, ob.action.Plugin, 1+r.Intn(3))
			}
			opName = "UpdateAction"
			err = h.Vault.UpdateAction(ctx, ob.action)
			model.UpdateAction(ob.action)
		}
		ops = append(ops, opName)
		res.Counters["op_"+opName]++
		if err != nil {
			add("op-error", opName, "%s failed: %v", opName, err)
			break
		}
		if !compare(id, "after "+opName) {
			break
		}
		if r.Intn(25) == 0 && len(ids) > 1 {
			did := ids[r.Intn(len(ids))]
			if live[did.String()] != nil {
				ops = append(ops, "Delete")
				res.Counters["op_Delete"]++
				if err := h.Vault.Delete(ctx, did); err != nil {
					add("op-error", "Delete", "Delete failed: %v", err)
					break
				}
				model.Delete(did)
				delete(live, did.String())
				compare(did, "after Delete")
			}
		}
	}
	for _, id := range ids {
		if len(res.Viols) > 0 {
			break
		}
		compare(id, "at the end")
	}
	// file-backed: reopen and compare again (what was last written is what a new process reads)
	if kind == "sqlite-file" && len(res.Viols) == 0 {
		h.Vault.Close(ctx)
		h2, err := openVault(ctx, kind, c.Scratch, idx)
		if err != nil {
			add("reopen-error", "", "cannot reopen the store: %v", err)
		} else {
			h = h2
			for _, id := range ids {
				compare(id, "after reopening the store")
			}
			res.Counters["reopened_stores"]++
			h2.Vault.Close(ctx)
		}
	}
	res.Nontriv = hashStr(fmt.Sprint(kind, ops))
	res.ISig = hashStr(fmt.Sprint(ops))
	res.Events = len(ops)
	if idx < 3 {
		res.Sample = map[string]any{"vault": kind, "ops": ops, "plans": nPlans}
	}
	if len(res.Viols) > 0 {
		res.Witness = map[string]any{"vault": kind, "ops": ops}
	}
	return res
}

// mergeState keeps the ETag (cosmos concurrency control) of the live object.
func mergeState(old, n *workflow.State) *workflow.State {
	if old != nil {
		n.ETag = old.ETag
	}
	return n
}

func init() {
	register(&Prop{
		ID: "C13", Level: "exploration", Batch: 30, PerCaseTimeout: 40 * time.Second,
		Rule:  "case i = PRNG(seed,i): vault kind by i mod 6 (3x sqlite in-memory, 2x sqlite file-backed, 1x cosmosdb over its fake client), 1-3 plans with hostile field values (quotes, unicode, placeholders, long strings, zero/far-future times, extreme durations, empty vs absent meta, nil vs present groups, four request/response flavours incl. nested structs/maps/bytes/time and nil request, multi-attempt actions with wrapped errors), then 10-50 random Update*/Delete operations; after every step Read is compared structurally with a reference model; every 30th case is a concurrent history (one writer per object issuing Update* with unique versions, 1-3 readers, sqlite in-memory/file) recorded at the harness boundary and checked with porcupine against a per-object register model; distinct/non-trivial by hash of (vault, operation list)",
		Cases: nCases(240, 6000),
		Run:   everyNth(15, c13Lin, c13Run),
		RaceAttr: func(rb ev.RaceBlock) bool {
			return rb.HasFunc("workflow/storage/") && !rb.HasFunc("List") && !rb.HasFunc("Search") && !rb.HasFunc("Exists")
		},
		MinNontrivial: 30,
		Assumptions: []string{"cosmosdb is exercised over the package's own fake client; it ignores ORDER BY, so actions are compared as a set keyed by id there",
			"only JSON-faithful request values and timestamps >= 1970 (or zero) are generated"},
	})
}
