package checks

import (
	"fmt"
	"math/rand"
	"os"
	"os/exec"
	"path/filepath"
	"strings"
	"syscall"
	"time"

	"github.com/element-of-surprise/coercion/workflow/context"

	"verifharness/internal/eng"
	"verifharness/internal/ev"
	"verifharness/internal/gen"
	"verifharness/internal/oracle"
	"verifharness/internal/plug"
	"verifharness/internal/spec"
)

// engineCase builds the case of (prop, idx); profile-specific.
type engineProfile func(r *rand.Rand, idx int, tier string) *eng.Case

func plansOf(r *rand.Rand, g *gen.Params, n int) []spec.Plan {
	var out []spec.Plan
	for i := 0; i < n; i++ {
		out = append(out, g.Plan(r, fmt.Sprintf("p%d", i)))
	}
	return out
}

func nPlans(r *rand.Rand) int {
	switch r.Intn(6) {
	case 0:
		return 2
	case 1:
		return 3
	}
	return 1
}

func baseCase(r *rand.Rand, plans []spec.Plan) *eng.Case {
	return &eng.Case{Plans: plans, VaultDelayUS: []int{0, 300, 1500}[r.Intn(3)], VaultSeed: r.Int63(), WaitTimeoutMS: 20000, GraceMS: 25, StaggerUS: r.Intn(500)}
}

func orderProfile(r *rand.Rand, idx int, tier string) *eng.Case {
	if idx%10 == 5 {
		// several clients start the same plan at once: still one execution, in order
		g := gen.Base()
		c := baseCase(r, plansOf(r, &g, 1))
		c.RacingStarts = 2 + r.Intn(5)
		c.VaultDelayUS = []int{300, 1500}[r.Intn(2)]
		return c
	}
	if idx%10 == 7 {
		// the context handed to Start is cancelled right after Start returned (documented not to stop the run)
		g := gen.Base()
		c := baseCase(r, plansOf(r, &g, nPlans(r)))
		c.CancelStartCtx = true
		return c
	}
	if idx%6 == 0 {
		// work still in flight when the block is found to have failed: deferred checks must still come last
		p := slowSurvivor(r, "p0", idx%12 == 0)
		d := &spec.Checks{Actions: []spec.Action{{Steps: []plug.Step{{Out: plug.OK, SleepUS: 500}}}}}
		if p.Deferred == nil && p.Blocks[0].Deferred == nil {
			if r.Intn(2) == 0 {
				p.Deferred = d
			} else {
				p.Blocks[0].Deferred = d
			}
		}
		// a multi-action survivor shows whether the sequence goes on after the scope ended
		p.Blocks[0].Seqs[1].Actions = append(p.Blocks[0].Seqs[1].Actions, spec.Action{Steps: []plug.Step{{Out: plug.OK, SleepUS: 1000}}})
		p.AssignTags()
		return baseCase(r, []spec.Plan{p})
	}
	g := gen.Base()
	return baseCase(r, plansOf(r, &g, nPlans(r)))
}

func concProfile(r *rand.Rand, idx int, tier string) *eng.Case {
	g := gen.Base()
	g.MaxBlocks = 2
	g.MaxSeqs = 7
	g.MinSeqs = 2
	g.MaxActions = 2
	g.SleepUS = [2]int{1000, 5000}
	g.TailP = 0
	g.Concs = []int{0, 1, 2, 3, -97, -98, -99}
	g.Tols = []int{-1, -1, 0, 1, 2}
	g.PFailSeqAction = 0.2
	g.PCont, g.PBCont = 0.1, 0.1
	g.PFailCont = 0
	n := 1 + r.Intn(4)
	c := baseCase(r, plansOf(r, &g, n))
	if idx%10 == 5 {
		// several clients start the plan at once: still one execution (one plan only: a double execution ends
		// in a process panic as soon as its second run finishes, so the verdict is journalled at Wait return)
		c.Plans = c.Plans[:1]
		c.RacingStarts = 2 + r.Intn(5)
		c.VaultDelayUS = 2000
	}
	return c
}

func tolProfile(r *rand.Rand, idx int, tier string) *eng.Case {
	g := gen.Base()
	g.MaxBlocks = 3
	g.MaxSeqs = 6
	g.MinSeqs = 1
	g.PCont = 0 // a plan-level continuous check failure legitimately fails the running block
	g.PBCont = 0.15
	g.PFailCont = 0
	g.PFailSeqAction = 0.4
	g.Tols = []int{-1, 0, 0, 1, 2, -99}
	g.Concs = []int{0, 1, 1, 2, 3}
	g.PBypass, g.PBBypass = 0.05, 0.08
	return baseCase(r, plansOf(r, &g, nPlans(r)))
}

// slowSurvivor: Concurrency C >= 2, at least C+2 sequences, the first fails at once, the others are slow,
// tolerance 0 — work is still in flight when the launch loop notices that the block has failed.
func slowSurvivor(r *rand.Rand, name string, contInstead bool) spec.Plan {
	c := 2 + r.Intn(2)
	ns := c + 2 + r.Intn(2)
	var b spec.Block
	b.Conc = c
	b.Tol = 0
	for s := 0; s < ns; s++ {
		st := plug.Step{Out: plug.OK, SleepUS: 15000 + r.Intn(30000)}
		if s == 0 && !contInstead {
			st = plug.Step{Out: plug.Permanent, SleepUS: r.Intn(500)}
		}
		b.Seqs = append(b.Seqs, spec.Seq{Actions: []spec.Action{{Steps: []plug.Step{st}}}})
	}
	p := spec.Plan{Name: name, Blocks: []spec.Block{b}}
	if contInstead {
		cc := &spec.Checks{DelayUS: 500 + r.Intn(2000), Actions: []spec.Action{{Steps: []plug.Step{{Out: plug.OK, SleepUS: 200}, {Out: plug.Permanent, SleepUS: 200}}}}}
		if r.Intn(2) == 0 {
			p.Cont = cc
		} else {
			p.Blocks[0].Cont = cc
		}
	}
	if r.Intn(2) == 0 {
		p.Deferred = &spec.Checks{Actions: []spec.Action{{Steps: []plug.Step{{Out: plug.OK, SleepUS: 500}}}}}
	}
	if r.Intn(2) == 0 {
		p.Blocks[0].Deferred = &spec.Checks{Actions: []spec.Action{{Steps: []plug.Step{{Out: plug.OK, SleepUS: 500}}}}}
	}
	if r.Intn(3) == 0 {
		p.Blocks = append(p.Blocks, spec.Block{Conc: 1, Seqs: []spec.Seq{{Actions: []spec.Action{{Steps: []plug.Step{{Out: plug.OK}}}}}}})
	}
	p.AssignTags()
	return p
}

// busyCont: few long sequences (all launched at once, so nobody polls the continuous-check results) next to
// fast continuous checks at block and/or plan level: several runs pass unobserved and one is in flight when the
// scope ends. failAtRun > 0 scripts the block-level (or plan-level) check to fail at that run.
func busyCont(r *rand.Rand, name string, failAtRun int) spec.Plan {
	mk := func(failAt int) *spec.Checks {
		a := spec.Action{}
		for k := 1; failAt > 0 && k < failAt; k++ {
			a.Steps = append(a.Steps, plug.Step{Out: plug.OK, SleepUS: 1500 + r.Intn(4000)})
		}
		if failAt > 0 {
			a.Steps = append(a.Steps, plug.Step{Out: plug.Permanent, SleepUS: 1500 + r.Intn(4000)})
		} else {
			a.Steps = []plug.Step{{Out: plug.OK, SleepUS: 1500 + r.Intn(4000)}}
		}
		return &spec.Checks{DelayUS: 300 + r.Intn(700), Actions: []spec.Action{a}}
	}
	nseq := 1 + r.Intn(2)
	b := spec.Block{Conc: nseq + r.Intn(2), Tol: 0}
	for s := 0; s < nseq; s++ {
		var sq spec.Seq
		for a := 0; a < 1+r.Intn(2); a++ {
			sq.Actions = append(sq.Actions, spec.Action{Steps: []plug.Step{{Out: plug.OK, SleepUS: 8000 + r.Intn(14000)}}})
		}
		b.Seqs = append(b.Seqs, sq)
	}
	p := spec.Plan{Name: name, Blocks: []spec.Block{b}}
	switch r.Intn(3) {
	case 0:
		p.Blocks[0].Cont = mk(failAtRun)
	case 1:
		p.Cont = mk(failAtRun)
	default:
		p.Blocks[0].Cont = mk(failAtRun)
		p.Cont = mk(0)
	}
	if r.Intn(2) == 0 {
		p.Blocks[0].Deferred = &spec.Checks{Actions: []spec.Action{{Steps: []plug.Step{{Out: plug.OK, SleepUS: 300}}}}}
	}
	if r.Intn(2) == 0 {
		p.Post = &spec.Checks{Actions: []spec.Action{{Steps: []plug.Step{{Out: plug.OK, SleepUS: 300}}}}}
	}
	if r.Intn(3) == 0 {
		p.Blocks = append(p.Blocks, spec.Block{Conc: 1, Seqs: []spec.Seq{{Actions: []spec.Action{{Steps: []plug.Step{{Out: plug.OK, SleepUS: 2000}}}}}}})
	}
	p.AssignTags()
	return p
}

func finalProfile(r *rand.Rand, idx int, tier string) *eng.Case {
	if idx%5 == 1 {
		fail := 0
		if idx%10 == 1 {
			fail = 2 + r.Intn(5)
		}
		c := baseCase(r, []spec.Plan{busyCont(r, "p0", fail)})
		c.GraceMS = 40
		return c
	}
	if idx%5 == 0 {
		c := baseCase(r, []spec.Plan{slowSurvivor(r, "p0", idx%10 == 0)})
		c.GraceMS = 40
		return c
	}
	g := gen.Base()
	g.PCont, g.PBCont = 0.55, 0.45
	g.ContSleepUS = [2]int{3000, 20000}
	g.ContDelayUS = [2]int{200, 2000}
	g.SleepUS = [2]int{0, 2500}
	g.PFailCont = 0.2
	g.PFailPre, g.PFailPost, g.PFailDeferred = 0.15, 0.2, 0.2
	g.PPost, g.PDeferred = 0.5, 0.5
	n := 1
	if r.Intn(3) == 0 {
		n = 2 + r.Intn(3)
	}
	c := baseCase(r, plansOf(r, &g, n))
	c.GraceMS = 40
	// the context handed to Start is cancelled right after Start returned (documented not to stop the run)
	c.CancelStartCtx = idx%5 == 3
	return c
}

// attemptsProfile: retry budgets and outcome scripts over all five outcomes; small timeouts through direct create.
func attemptsProfile(r *rand.Rand, idx int, tier string) *eng.Case {
	outs := []string{plug.Transient, plug.Transient, plug.Permanent, plug.OK, plug.OK, plug.WrongType, plug.WrongTypeErr, plug.WrongPtr, plug.Overrun}
	mk := func() spec.Action {
		a := spec.Action{Retries: r.Intn(5), Pointer: r.Intn(3) == 0, TimeoutMS: 2000}
		n := 1 + r.Intn(a.Retries+2)
		for i := 0; i < n; i++ {
			st := plug.Step{Out: outs[r.Intn(len(outs))], SleepUS: r.Intn(1500)}
			if st.Out == plug.Overrun {
				a.TimeoutMS = 250
				st.SleepUS = 0
			}
			a.Steps = append(a.Steps, st)
		}
		// non-overrun steps of an action with a 60 ms timeout must stay far below it (250 ms; a case in which one does not is inconclusive, see spuriousTimeouts)
		return a
	}
	var p spec.Plan
	p.Name = "p0"
	grp := func() *spec.Checks {
		c := &spec.Checks{DelayUS: 1000 + r.Intn(2000)}
		for i := 0; i < 1+r.Intn(3); i++ {
			c.Actions = append(c.Actions, mk())
		}
		return c
	}
	if r.Intn(3) == 0 {
		p.Bypass = grp()
	}
	if r.Intn(2) == 0 {
		p.Pre = grp()
	}
	if r.Intn(3) == 0 {
		p.Post = grp()
	}
	if r.Intn(2) == 0 {
		p.Deferred = grp()
	}
	nb := 1 + r.Intn(2)
	for b := 0; b < nb; b++ {
		blk := spec.Block{Conc: 1 + r.Intn(3), Tol: -1}
		if r.Intn(3) == 0 {
			blk.Pre = grp()
		}
		if r.Intn(4) == 0 {
			blk.Cont = grp()
		}
		if r.Intn(3) == 0 {
			blk.Post = grp()
		}
		if r.Intn(3) == 0 {
			blk.Deferred = grp()
		}
		for s := 0; s < 1+r.Intn(3); s++ {
			var sq spec.Seq
			for a := 0; a < 1+r.Intn(3); a++ {
				sq.Actions = append(sq.Actions, mk())
			}
			blk.Seqs = append(blk.Seqs, sq)
		}
		p.Blocks = append(p.Blocks, blk)
	}
	p.AssignTags()
	c := baseCase(r, []spec.Plan{p})
	c.DirectCreate = true
	c.GraceMS = 30
	return c
}

// negRetriesProfile: plans submitted through Submit whose actions carry NEGATIVE retry budgets and scripts that fail
// retryably three times before they succeed. Whatever budget the engine ends up storing for such an action, the
// plugin may be invoked at most max(stored Retries, 0)+1 times.
func negRetriesProfile(r *rand.Rand, idx int, tier string) *eng.Case {
	neg := []int{-1, -2, -3, -5, -100}
	mk := func(ret int) spec.Action {
		a := spec.Action{Retries: ret, Pointer: r.Intn(3) == 0}
		for i := 0; i < 3; i++ {
			a.Steps = append(a.Steps, plug.Step{Out: plug.Transient})
		}
		a.Steps = append(a.Steps, plug.Step{Out: plug.OK})
		return a
	}
	var p spec.Plan
	p.Name = "p0"
	if r.Intn(3) == 0 {
		p.Pre = &spec.Checks{DelayUS: 1000, Actions: []spec.Action{mk(neg[r.Intn(len(neg))])}}
	}
	if r.Intn(3) == 0 {
		p.Deferred = &spec.Checks{DelayUS: 1000, Actions: []spec.Action{mk(neg[r.Intn(len(neg))])}}
	}
	blk := spec.Block{Conc: 2, Tol: -1}
	for s := 0; s < 2+r.Intn(2); s++ {
		var sq spec.Seq
		for a := 0; a < 1+r.Intn(2); a++ {
			ret := neg[r.Intn(len(neg))]
			if r.Intn(3) == 0 {
				ret = r.Intn(4)
			}
			sq.Actions = append(sq.Actions, mk(ret))
		}
		blk.Seqs = append(blk.Seqs, sq)
	}
	if r.Intn(2) == 0 {
		blk.Post = &spec.Checks{DelayUS: 1000, Actions: []spec.Action{mk(neg[r.Intn(len(neg))])}}
	}
	p.Blocks = append(p.Blocks, blk)
	p.AssignTags()
	c := baseCase(r, []spec.Plan{p})
	c.GraceMS = 30
	return c
}

func negRetriesOracle(c *eng.Case, run *eng.Run, pr *eng.PlanRun, t *oracle.Trace, res *CaseResult) {
	for i := range pr.P0.Objs {
		o := &pr.P0.Objs[i]
		if o.Kind != "action" {
			continue
		}
		calls := len(t.ByTag[o.Addr])
		budget := o.Retries
		if budget < 0 {
			budget = 0
		}
		res.Counters["neg_retries_actions"]++
		if calls > budget+1 {
			res.Viols = append(res.Viols, ev.V("C05", "too-many-calls", "negative-retries", "action %s was submitted with a negative retry budget, is stored with Retries=%d and its plugin was invoked %d times", o.Addr, o.Retries, calls))
		}
		if len(o.Attempts) != calls {
			res.Viols = append(res.Viols, ev.V("C05", "attempt-count", "negative-retries", "action %s: %d invocations but %d recorded attempts", o.Addr, calls, len(o.Attempts)))
		}
	}
	res.Nontriv = hashStr(fmt.Sprint("negretries", pr.Spec))
}

func gateProfile(r *rand.Rand, idx int, tier string) *eng.Case {
	if idx < 2*243 {
		// bounded-exhaustive box: every subset of the five groups x every pass/fail assignment, at plan
		// level (idx < 243) and at block level (243 <= idx < 486), on a 1-block/2-sequence skeleton.
		level := idx / 243
		k := idx % 243
		// enumerate (subset, assignment): digit d_i in {absent, pass, fail} for each of the 5 groups
		var groups [5]*spec.Checks
		for i := 0; i < 5; i++ {
			d := k % 3
			k /= 3
			if d == 0 {
				continue
			}
			out := plug.OK
			if d == 2 {
				out = plug.Permanent
			}
			groups[i] = &spec.Checks{DelayUS: 800, Actions: []spec.Action{{Steps: []plug.Step{{Out: out, SleepUS: 300}}}}}
		}
		blk := spec.Block{Conc: 2, Tol: 0, Seqs: []spec.Seq{
			{Actions: []spec.Action{{Steps: []plug.Step{{Out: plug.OK, SleepUS: 1500}}}, {Steps: []plug.Step{{Out: plug.OK, SleepUS: 1500}}}}},
			{Actions: []spec.Action{{Steps: []plug.Step{{Out: plug.OK, SleepUS: 2500}}}}},
		}}
		p := spec.Plan{Name: "p0"}
		if level == 0 {
			p.Bypass, p.Pre, p.Cont, p.Post, p.Deferred = groups[0], groups[1], groups[2], groups[3], groups[4]
		} else {
			blk.Bypass, blk.Pre, blk.Cont, blk.Post, blk.Deferred = groups[0], groups[1], groups[2], groups[3], groups[4]
		}
		p.Blocks = []spec.Block{blk}
		p.AssignTags()
		c := baseCase(r, []spec.Plan{p})
		c.VaultDelayUS = 0
		return c
	}
	g := gen.Base()
	g.PBypass, g.PBBypass = 0.4, 0.4
	g.PFailBypass = 0.5
	g.PFailPre = 0.3
	g.PFailCont = 0.3
	g.MaxContFailRun = 2
	g.PPre, g.PBPre = 0.5, 0.5
	g.PCont, g.PBCont = 0.4, 0.4
	return baseCase(r, plansOf(r, &g, 1))
}

func contProfile(r *rand.Rand, idx int, tier string) *eng.Case {
	g := gen.Base()
	g.PCont, g.PBCont = 0.6, 0.6
	g.PFailCont = 0.6
	g.MaxContFailRun = 6
	g.ContDelayUS = [2]int{200, 2500}
	g.ContSleepUS = [2]int{0, 2500}
	g.SleepUS = [2]int{500, 5000}
	g.PDeferred, g.PBDeferred = 0.6, 0.6
	g.PFailSeqAction = 0.12
	g.MaxSeqs = 5
	g.PBypass, g.PBBypass = 0.08, 0.08
	c := baseCase(r, plansOf(r, &g, 1))
	if idx%8 == 1 {
		// several unobserved passing runs, then a failing run that is typically in flight when the scope ends
		return baseCase(r, []spec.Plan{busyCont(r, "p0", 2+r.Intn(5))})
	}
	if idx%8 == 0 {
		// bounded-progress template: a sequence action returns only after the scope's continuous check ran k more times
		p := &c.Plans[0]
		k := 2 + r.Intn(3)
		cc := &spec.Checks{DelayUS: 500 + r.Intn(1500), Actions: []spec.Action{{Steps: []plug.Step{{Out: plug.OK, SleepUS: r.Intn(800)}}}}}
		wt := "P.cont.0"
		if r.Intn(2) == 0 {
			p.Cont = cc
		} else {
			p.Blocks[0].Cont = cc
			wt = "B0.cont.0"
		}
		p.Blocks[0].Seqs[0].Actions[0].Steps = []plug.Step{{Out: plug.OK, WaitTag: wt, WaitN: k}}
		p.Blocks[0].Seqs[0].Actions[0].Retries = 0
		p.Blocks[0].Bypass = nil
		p.Blocks[0].Pre = nil
		p.Bypass = nil
		p.Pre = nil
		p.AssignTags()
	}
	return c
}

func persistProfile(r *rand.Rand, idx int, tier string) *eng.Case {
	if idx%10 == 3 {
		// attempts that overrun their (60 ms) timeout, wrong-type responses, exhausted budgets: the result of
		// every attempt must still be durable before the next attempt begins
		c := attemptsProfile(r, idx, tier)
		c.VaultDelayUS = []int{300, 1500}[r.Intn(2)]
		return c
	}
	g := gen.Base()
	g.MaxRetries = 3
	g.PTransient = 0.35
	c := baseCase(r, plansOf(r, &g, nPlans(r)))
	c.VaultDelayUS = []int{300, 1500, 3000}[r.Intn(3)]
	c.Poll = idx%2 == 0
	if c.Poll && len(c.Plans) > 1 {
		c.Plans = c.Plans[:1] // one poller only: a single pooled connection serves readers and the engine
	}
	return c
}

// planFeatures is a compact signature of what happened (used for distinct/non-trivial counting).
func planFeatures(ps *spec.Plan, final *spec.PlanView) string {
	if final == nil {
		return "nofinal"
	}
	var sb strings.Builder
	for _, o := range final.Objs {
		if o.Kind == "action" {
			continue
		}
		fmt.Fprintf(&sb, "%s=%d;", o.Addr, o.Status)
	}
	fmt.Fprintf(&sb, "r=%d", final.Reason)
	for _, b := range ps.Blocks {
		fmt.Fprintf(&sb, "|c%dt%d", b.Conc, b.Tol)
	}
	return sb.String()
}

func hashStr(s string) string {
	h := uint64(1469598103934665603)
	for i := 0; i < len(s); i++ {
		h ^= uint64(s[i])
		h *= 1099511628211
	}
	return fmt.Sprintf("%016x", h)
}

type engineOracle func(c *eng.Case, run *eng.Run, pr *eng.PlanRun, t *oracle.Trace, res *CaseResult)

func sampleOf(c *eng.Case, run *eng.Run) any {
	evs := run.Events
	if len(evs) > 60 {
		evs = evs[:60]
	}
	var lines []string
	for _, e := range evs {
		switch e.Kind {
		case "begin", "end":
			lines = append(lines, fmt.Sprintf("%d %s %s %s#%d %s", e.Seq, e.Kind, e.Plan, e.Tag, e.N, e.Out))
		case "write", "create":
			lines = append(lines, fmt.Sprintf("%d %s %s %s st=%d att=%d", e.Seq, e.Kind, e.Obj, e.Tag, e.Status, e.NAtt))
		default:
			lines = append(lines, fmt.Sprintf("%d %s %s %s %s", e.Seq, e.Kind, e.API, e.Plan, e.Err))
		}
	}
	finals := map[string]any{}
	for _, pr := range run.Plans {
		if pr.P0 != nil {
			finals[pr.Spec.Name] = map[string]any{"status": pr.P0.Status("P"), "reason": pr.P0.Reason}
		}
	}
	return map[string]any{"case": c, "first_events": lines, "events_total": len(run.Events), "finals": finals}
}

// hangFeatures describes the shape of a plan whose Wait never returned (signature discriminator).
func hangFeatures(ps *spec.Plan, t *oracle.Trace) string {
	var f []string
	scopeFeat := func(name string, pre, cont *spec.Checks) {
		if pre != nil && cont != nil {
			for _, a := range pre.Actions {
				if last, ok := t.Last(a.Tag); ok && last.Out != plug.OK && last.End >= 0 {
					f = append(f, name+":pre-failed+cont")
					return
				}
			}
		}
	}
	scopeFeat("P", ps.Pre, ps.Cont)
	for bi := range ps.Blocks {
		scopeFeat("B", ps.Blocks[bi].Pre, ps.Blocks[bi].Cont)
	}
	if len(f) == 0 {
		return "other"
	}
	return f[0]
}

// cosmosify turns an engine case into one that runs on the cosmosdb vault (over the package's fake client): the engine
// executes what it READS BACK from the vault, so what this vault loses or changes of a definition, a status or an attempt
// shows in the same oracles. Shaped by the fake: it does not keep the order of the actions of a sequence or group
// (one action each), and every patch rewrites all items of the plan (small plans, no injected vault delays).
func cosmosify(ec *eng.Case) {
	// rendezvous scripts refer to other actions by tag: leave those cases alone
	rdv := false
	scan := func(as []spec.Action) {
		for _, a := range as {
			for _, st := range a.Steps {
				if st.WaitTag != "" {
					rdv = true
				}
			}
		}
	}
	for pi := range ec.Plans {
		p := &ec.Plans[pi]
		for _, c := range []*spec.Checks{p.Bypass, p.Pre, p.Cont, p.Post, p.Deferred} {
			if c != nil {
				scan(c.Actions)
			}
		}
		for bi := range p.Blocks {
			b := &p.Blocks[bi]
			for _, c := range []*spec.Checks{b.Bypass, b.Pre, b.Cont, b.Post, b.Deferred} {
				if c != nil {
					scan(c.Actions)
				}
			}
			for si := range b.Seqs {
				scan(b.Seqs[si].Actions)
			}
		}
	}
	if rdv || ec.RacingStarts > 1 {
		return
	}
	ec.Vault = "cosmos"
	ec.VaultDelayUS = 0
	if len(ec.Plans) > 2 {
		ec.Plans = ec.Plans[:2]
	}
	one := func(c *spec.Checks) {
		if c != nil && len(c.Actions) > 1 {
			c.Actions = c.Actions[:1]
		}
	}
	for pi := range ec.Plans {
		p := &ec.Plans[pi]
		if len(p.Blocks) > 2 {
			p.Blocks = p.Blocks[:2]
		}
		for _, c := range []*spec.Checks{p.Bypass, p.Pre, p.Cont, p.Post, p.Deferred} {
			one(c)
		}
		for bi := range p.Blocks {
			b := &p.Blocks[bi]
			if len(b.Seqs) > 4 {
				b.Seqs = b.Seqs[:4]
			}
			for _, c := range []*spec.Checks{b.Bypass, b.Pre, b.Cont, b.Post, b.Deferred} {
				one(c)
			}
			for si := range b.Seqs {
				if len(b.Seqs[si].Actions) > 1 {
					b.Seqs[si].Actions = b.Seqs[si].Actions[:1]
				}
			}
		}
		p.AssignTags()
	}
}

// spuriousTimeouts counts, per action, the stored timeout failures that exceed the invocations scripted to overrun.
func spuriousTimeouts(t *oracle.Trace, final *spec.PlanView) int {
	n := 0
	if final == nil {
		return 0
	}
	for _, o := range final.Objs {
		if o.Kind != "action" {
			continue
		}
		timeouts := 0
		for _, at := range o.Attempts {
			if at.HasErr && strings.Contains(at.ErrMsg, "timed out") {
				timeouts++
			}
		}
		if timeouts == 0 {
			continue
		}
		overruns := 0
		for _, inv := range t.Of(o.Addr) {
			if inv.Out == plug.Overrun {
				overruns++
			}
		}
		if timeouts > overruns {
			n += timeouts - overruns
		}
	}
	return n
}

func engineRun(prop string, profile engineProfile, orc engineOracle, hangIsViolation bool) func(c *Ctx, idx int) CaseResult {
	return func(c *Ctx, idx int) CaseResult {
		r := gen.Rand(c.Seed, prop, idx)
		ec := profile(r, idx, c.Tier)
		// C06: a quarter of the box cases in which a gating group (pre-checks, continuous checks) fails
		c06Gate := prop == "C06" && idx < 486 && idx%4 == 1 && (((idx%243)/3)%3 == 2 || ((idx%243)/9)%3 == 2)
		share := 32
		if c.Tier == "thorough" {
			share = 96
		}
		if idx%share == 9 || c06Gate {
			cosmosify(ec)
		}
		if ec.RacingStarts > 1 && c.Emit != nil {
			// a double execution ends in a process panic when its second run finishes: journal the verdict on
			// what was observed up to the first Wait return
			ec.OnWaited = func(run *eng.Run) {
				early := CaseResult{Counters: map[string]int{}, Note: "provisional verdict at Wait return"}
				for i := range run.Plans {
					pr := &run.Plans[i]
					if !pr.WaitRet || pr.P0 == nil {
						continue
					}
					t := oracle.Project(run.Events, pr.ID, pr.WaitSeq)
					orc(ec, run, pr, t, &early)
				}
				if len(early.Viols) > 0 {
					early.Witness = map[string]any{"case": ec, "events": run.Events}
					c.Emit(early)
				}
			}
		}
		run := eng.Execute(ec)
		res := CaseResult{Counters: map[string]int{}}
		if run.Err != "" {
			res.Verdict = "inconclusive"
			res.Note = run.Err
			return res
		}
		res.Events = len(run.Events)
		res.ISig = oracle.ISig(run.Events)
		var feats []string
		for i := range run.Plans {
			pr := &run.Plans[i]
			if pr.SubmitErr != "" || pr.StartErr != "" {
				res.Verdict = "inconclusive"
				res.Note = "submit/start failed: " + pr.SubmitErr + pr.StartErr
				continue
			}
			ws := -1
			if pr.WaitRet {
				ws = pr.WaitSeq
			}
			t := oracle.Project(run.Events, pr.ID, ws)
			if !pr.WaitRet {
				res.Counters["wait_hang"]++
				if hangIsViolation {
					res.Viols = append(res.Viols, ev.V(prop, "hang", hangFeatures(pr.Spec, t), "Wait on plan %s did not return within %d ms (%d plugin events, last event seq %d)", pr.Spec.Name, ec.WaitTimeoutMS, len(t.Invs), t.LastSeq))
				} else {
					res.Verdict = "inconclusive"
					res.Note = "Wait did not return (hang); not this property's business"
				}
				continue
			}
			if pr.P0 == nil {
				res.Verdict = "inconclusive"
				res.Note = "Wait returned no plan: " + pr.WaitErr
				continue
			}
			orc(ec, run, pr, t, &res)
			feats = append(feats, planFeatures(pr.Spec, pr.P0))
		}
		if !run.Quiesced {
			res.Counters["not_quiesced"]++
		}
		if res.Nontriv == "" && len(feats) > 0 {
			// default non-trivial rule: some plan did not simply complete with everything Completed
			res.Nontriv = hashStr(strings.Join(feats, "#"))
		}
		if len(res.Viols) > 0 {
			res.Witness = map[string]any{"case": ec, "run": run, "events": run.Events}
		}
		if idx%97 == 3 || idx == 0 {
			res.Sample = sampleOf(ec, run)
		}
		return res
	}
}

func nCases(quick, thorough int) func(string) int {
	return func(tier string) int {
		if tier == "thorough" {
			return thorough
		}
		return quick
	}
}

func raceHas(subs ...string) func(ev.RaceBlock) bool {
	return func(rb ev.RaceBlock) bool {
		for _, s := range subs {
			if rb.HasFunc(s) {
				return true
			}
		}
		return false
	}
}

func init() {
	register(&Prop{
		ID: "C01", Level: "exploration", Batch: 20, PerCaseTimeout: 70 * time.Second,
		Rule:  "every 20th case explores every crash point of a plan and applies the order rules to the plugin log of the process that resumes it (what ran before the crash is taken from the durable snapshot); every 10th case starts the plan from 2-6 racing goroutines, every 10th case cancels the context passed to Start right after Start returned; every 6th case the slow-survivor template (Concurrency>=2, >=C+2 sequences, the first fails at once or a continuous check fails, the others are slow, deferred checks present); otherwise case i = PRNG(seed,i) plan set from the 'order' profile (1-3 plans of 1-3 blocks x 1-4 sequences x 1-3 actions, random check groups, concurrency, tolerance, latencies with a slow tail, vault delays); a case is non-trivial/distinct by the hash of (final statuses of all non-action objects, reason, concurrency/tolerance values)",
		Cases: nCases(320, 6000),
		Run: everyNth(20, c01Crash, engineRun("C01", orderProfile, func(c *eng.Case, run *eng.Run, pr *eng.PlanRun, t *oracle.Trace, res *CaseResult) {
			res.Viols = append(res.Viols, oracle.C01(pr.Spec, t)...)
			res.Counters["invocations"] += len(t.Invs)
			if len(pr.Spec.Blocks) > 1 {
				res.Counters["multi_block_plans"]++
			}
		}, false)),
		RaceAttr:      raceHas("execSeq"),
		MinNontrivial: 30,
		Assumptions:   []string{"no 'overrun' steps in this profile: an abandoned timed-out plugin call may legitimately end late", "schedules are sampled, not enumerated"},
	})
	register(&Prop{
		ID: "C02", Level: "exploration", Batch: 16, PerCaseTimeout: 70 * time.Second,
		Rule:  "case i = PRNG(seed,i) 1-4 concurrent plans from the 'conc' profile (2-7 sequences, Concurrency in {unset,1,2,3,n-1,n,n+2}, every action sleeps 1-5 ms; every 10th case starts each plan from 2-6 racing goroutines; every 25th case explores every crash point of a plan with more sequences than Concurrency and applies the bound to the process that resumes it); non-trivial = some block reached min(Concurrency, #sequences) sequences in flight; distinct by final-status hash",
		Cases: nCases(250, 5000),
		Run: everyNth(25, c02Crash, engineRun("C02", concProfile, func(c *eng.Case, run *eng.Run, pr *eng.PlanRun, t *oracle.Trace, res *CaseResult) {
			r := oracle.C02(pr.Spec, run.Events, pr.ID)
			res.Viols = append(res.Viols, r.Viols...)
			res.Counters["blocks_with_sequences"] += r.Blocks
			res.Counters["blocks_reached_bound"] += r.ReachedCap
			for _, m := range r.MaxPerBlk {
				res.Counters[fmt.Sprintf("max_in_flight_%d", m)]++
			}
		}, false)),
		RaceAttr:      raceHas("ExecuteSequences"),
		MinNontrivial: 30,
		Finish: func(tier string, counters map[string]int, cov map[string]any) string {
			if counters["blocks_with_sequences"] > 0 && counters["blocks_reached_bound"]*10 < counters["blocks_with_sequences"]*3 {
				return fmt.Sprintf("only %d of %d blocks reached their concurrency bound (< 30%%)", counters["blocks_reached_bound"], counters["blocks_with_sequences"])
			}
			return ""
		},
		Assumptions: []string{"the bound is the literal one of the statement: distinct sequences with a plugin invocation in flight", "no 'overrun' steps in this profile"},
	})
	register(&Prop{
		ID: "C03", Level: "exploration", Batch: 25, PerCaseTimeout: 70 * time.Second,
		Rule:  "case i = PRNG(seed,i) plans from the 'tol' profile (ToleratedFailures in {-1,0,1,2,n}, Concurrency in {unset,1,2,3}, 40% failing sequences at every position, no plan-level continuous check); every 20th case explores EVERY crash point (write prefix) of a tolerated-failure plan and applies the status rules to the plan the recovering Workstream ends with; non-trivial = at least one sequence failed; distinct by final-status hash",
		Cases: nCases(400, 8000),
		Run: everyNth(20, c03Crash, engineRun("C03", tolProfile, func(c *eng.Case, run *eng.Run, pr *eng.PlanRun, t *oracle.Trace, res *CaseResult) {
			res.Viols = append(res.Viols, oracle.C03(pr.Spec, t, pr.P0)...)
			failed := 0
			for _, o := range pr.P0.Objs {
				if o.Kind == "seq" && o.Status == spec.Failed {
					failed++
				}
			}
			if failed > 0 {
				res.Counters["plans_with_failed_sequences"]++
				res.Nontriv = hashStr(planFeatures(pr.Spec, pr.P0))
			} else if res.Nontriv == "" {
				res.Nontriv = ""
			}
			for bi, b := range pr.Spec.Blocks {
				if b.EffConc() == 1 && b.Tol >= 0 && pr.P0.Status(fmt.Sprintf("B%d", bi)) == spec.Failed {
					res.Counters["conc1_blocks_failed"]++
				}
			}
		}, false)),
		RaceAttr:      func(ev.RaceBlock) bool { return false },
		MinNontrivial: 30,
		Assumptions:   []string{"rule 2 (exact stop) is stated on counts and declared-order prefixes, not on instants, because with Concurrency > 1 a launch in the window after a plugin returned is legitimate"},
	})
	register(&Prop{
		ID: "C04", Level: "exploration", Batch: 16, PerCaseTimeout: 70 * time.Second,
		Rule:  "case i = PRNG(seed,i) from the 'final' profile (continuous checks slower than sequences, failing stages of every kind, every 5th case the slow-survivor template with Concurrency>=2 and >=C+2 sequences, every 5th case the busy-cont template: few long sequences all launched at once next to fast continuous checks, so that several passing runs go unobserved and one run is in flight when the scope ends); observed: plan returned by Wait, plugin/vault events after Wait, plan re-read after quiescence + grace; every 25th case explores every crash point of a plan with failing stages (pre-checks next to the first continuous run / a failure while sequences execute / random) and applies the consistency rules to the plan Wait returns in the process that resumed it; distinct by final-status hash",
		Cases: nCases(300, 6000),
		Run: everyNth(25, c04Crash, engineRun("C04", finalProfile, func(c *eng.Case, run *eng.Run, pr *eng.PlanRun, t *oracle.Trace, res *CaseResult) {
			res.Viols = append(res.Viols, oracle.C04(pr.Spec, t, pr.P0, pr.P1, run.GraceSeq)...)
			if pr.P0.Status("P") == spec.Failed {
				res.Counters["failed_plans"]++
				res.Counters["reason_"+fmt.Sprint(pr.P0.Reason)]++
			} else {
				res.Counters["completed_plans"]++
			}
		}, true)),
		RaceAttr:      raceHas("runContChecks", "runChecksOnce", "writeEverything", "finalStates", "sm.(*States).End"),
		MinNontrivial: 30,
		Assumptions:   []string{"'never changes afterwards' is observed until all plugins are idle and the log has been stable for the grace window (40 ms), not forever", "when two stages failed, either is accepted as the failure reason"},
	})
	register(&Prop{
		ID: "C05", Level: "exploration", Batch: 16, PerCaseTimeout: 90 * time.Second,
		Rule:  "case i = PRNG(seed,i) plan whose every action has Retries 0-4 and a script of up to Retries+2 outcomes over {ok, transient, permanent, wrongtype, wrongtype together with a retryable error, right type with the wrong pointer-ness, overrun}; every 20th case instead: a plan SUBMITTED with negative retry budgets (-1 ... -100) whose actions fail retryably three times before succeeding — at most max(stored Retries, 0)+1 calls; the others are stored through vault.Create so that overrun actions can have a 250 ms timeout (a case in which a call scripted to return at once runs into that timeout is inconclusive); every 10th case explores every crash point of a strictly sequential plan with retry budgets and transient failures and checks the call budget against the durable attempts, the total number of calls across the crash and the final attempt record; every 40th case is a cosmosdb crash case (process death between two client writes, plans with re-run continuous checks that have retry budgets) whose recovered plans must carry consistent attempt records (no attempts on a NotStarted action, status agrees with the final attempt); non-trivial = the case contained a retried, overrun or wrong-type invocation; distinct by script hash",
		Cases: nCases(80, 2500),
		Run: everyNth(40, cosmosFor("C05"), everyNth(10, c05Crash, onResidue(20, 7, engineRun("C05", negRetriesProfile, negRetriesOracle, false), engineRun("C05", attemptsProfile, func(c *eng.Case, run *eng.Run, pr *eng.PlanRun, t *oracle.Trace, res *CaseResult) {
			if n := spuriousTimeouts(t, pr.P0); n > 0 {
				// a call that is scripted to return at once was overtaken by the action's timeout: the machine is too
				// slow for the timeouts of this profile, nothing about attempts can be concluded from this case
				res.Verdict = "inconclusive"
				res.Note = fmt.Sprintf("%d invocation(s) scripted to return at once ran into the action timeout (machine too slow)", n)
				res.Counters["spurious_timeouts"] += n
				return
			}
			res.Viols = append(res.Viols, oracle.C05(pr.Spec, t, pr.P0)...)
			var sb strings.Builder
			for _, inv := range t.Invs {
				res.Counters["inv_"+inv.Out]++
				if inv.N > 1 {
					res.Counters["retried_invocations"]++
				}
				fmt.Fprintf(&sb, "%s%d%s;", inv.Tag, inv.N, inv.Out)
				if inv.RdvTO {
					res.Verdict = "inconclusive"
					res.Note = "overrun plugin never saw its context cancelled within the harness watchdog"
				}
			}
			res.Counters["actions_observed"] += len(t.ByTag)
			res.Nontriv = hashStr(sb.String())
		}, false)))),
		RaceAttr:      raceHas("actions.Runner", "actions.run"),
		MinNontrivial: 30,
		Assumptions:   []string{"an engine that makes fewer than Retries+1 calls after a retryable failure is reported (rule no-retry) only when budget remained and no later call happened", "plans are stored with vault.Create (Submit enforces timeouts >= 5 s)"},
	})
	register(&Prop{
		ID: "C06", Level: "exploration", Batch: 30, PerCaseTimeout: 70 * time.Second,
		Rule:  "cases 0..485: bounded-exhaustive box — every subset of the five check groups x every pass/fail assignment (3^5=243) at plan level and at block level on a 1-block/2-sequence skeleton; a quarter of the box cases with a failing pre or continuous group (and every 32nd case) run on the cosmosdb vault; cases >= 486: PRNG(seed,i) plans with bypass failure probability 0.5 and pre/cont failure 0.3, every 15th of them explores every crash point of a plan whose gate (bypass passed / pre-checks or the initial continuous run failed) is decided while the other gating group is still executing, with checks that in half of the plans answer differently after the restart, and requires that a gate durably decided at the crash is not taken again; distinct by final-status hash",
		Cases: nCases(486+150, 486+5000),
		Run: c06Dispatch(engineRun("C06", gateProfile, func(c *eng.Case, run *eng.Run, pr *eng.PlanRun, t *oracle.Trace, res *CaseResult) {
			res.Viols = append(res.Viols, oracle.C06(pr.Spec, t, pr.P0)...)
			if pr.Spec.Bypass != nil {
				res.Counters["plans_with_bypass"]++
			}
			if pr.P0.Status("P.bypass") == spec.Completed {
				res.Counters["plans_bypassed"]++
			}
		}, true)),
		RaceAttr:      func(ev.RaceBlock) bool { return false },
		MinNontrivial: 30,
		Assumptions:   []string{"'initial run of a continuous check' is the first run of that group in the scope, whether or not the scope also has pre-checks"},
	})
	register(&Prop{
		ID: "C07", Level: "exploration", Batch: 16, PerCaseTimeout: 70 * time.Second,
		Rule:  "case i = PRNG(seed,i) from the 'cont' profile (continuous checks in 60% of scopes, failing at run k in 1..6, deferred checks in 60% of scopes; every 8th case the busy-cont template with a failing run k in 2..6 that is typically in flight when the scope ends; every 8th case a bounded-progress rendezvous: a sequence action returns only after the scope's continuous check ran k more times); every 40th case explores every crash point of a plan with failing stages and deferred checks in every scope and requires in the recovered plan: deferred checks of entered scopes ran (once), a continuous failure durable at the crash still fails its scope; non-trivial = a continuous check failed or a deferred group existed; distinct by final-status hash",
		Cases: nCases(400, 8000),
		Run: everyNth(40, c07Crash, engineRun("C07", contProfile, func(c *eng.Case, run *eng.Run, pr *eng.PlanRun, t *oracle.Trace, res *CaseResult) {
			r := oracle.C07(pr.Spec, t, pr.P0)
			res.Viols = append(res.Viols, r.Viols...)
			for z, n := range r.Zones {
				res.Counters["zone_"+z] += n
			}
			for _, inv := range t.Invs {
				if inv.RdvTO {
					res.Viols = append(res.Viols, ev.V("C07", "cont-not-rerun", inv.Addr.Scope()[:1], "sequence action %s waited 8 s for further runs of the scope's continuous check, which never came", inv.Tag))
				}
			}
		}, true)),
		RaceAttr:      raceHas("runContChecks", "contChecksPassing"),
		MinNontrivial: 30,
		Finish: func(tier string, counters map[string]int, cov map[string]any) string {
			for _, z := range []string{"before-first-sequence", "between-launches", "during-last-sequences", "after-sequences"} {
				if counters["zone_plan:"+z]+counters["zone_block:"+z] == 0 {
					return "no continuous-check failure landed in zone " + z
				}
			}
			return ""
		},
		Assumptions: []string{"'keeps being re-run' is decided as bounded progress: k further runs within an 8 s watchdog (nominal: k x 3 ms)"},
	})
	register(&Prop{
		ID: "C08", Level: "exploration", Batch: 16, PerCaseTimeout: 70 * time.Second,
		Rule:  "case i = PRNG(seed,i) from the 'order' profile with retries and vault delays of up to 3 ms before/after every storage call; every second case (single plan) has a goroutine polling Plan(id) every 3 ms; every 30th case explores every crash point of a plan and applies the no-regress rule to the writes of the process that resumes it (what was durably Completed/Failed when it came up is never written in another status); every tenth case uses the C05 script alphabet (overrun, wrong type, exhausted budgets; 250 ms timeouts through vault.Create); every tenth case is a fault case: a strictly sequential plan runs in a grandchild process on a vault whose PRNG-chosen k-th write fails, every event journalled synchronously: no plugin invocation may begin after the failed write and Wait must not return; distinct by final-status hash",
		Cases: nCases(300, 6000),
		Run: c08Dispatch(engineRun("C08", persistProfile, func(c *eng.Case, run *eng.Run, pr *eng.PlanRun, t *oracle.Trace, res *CaseResult) {
			res.Viols = append(res.Viols, oracle.C08(pr.Spec, t, pr.P0)...)
			res.Counters["writes"] += len(t.Writes)
			if pr == &run.Plans[0] {
				res.Counters["poll_reads"] += run.PollReads
				for _, g := range run.Regress {
					res.Viols = append(res.Viols, ev.V("C08", "regress", strings.Split(g.Addr, ".")[0][:1], "a polling reader saw %s of plan %s go from %d to %d", g.Addr, g.Plan, g.From, g.To))
				}
			}
		}, false)),
		RaceAttr:      func(ev.RaceBlock) bool { return false },
		MinNontrivial: 30,
		Assumptions:   []string{"a write event is logged after the real vault call returned and before control returns to the engine; a begin event is logged at the first instruction of Execute"},
	})
}

// ---------- C08 fault mode: a failing storage write must stop the engine before it acts ----------

// seqPlan: a strictly sequential plan (Concurrency 1, one action per check group, no continuous checks), so that
// after a failed write no plugin invocation at all may begin.
func seqPlan(r *rand.Rand) spec.Plan {
	one := func(fail bool) *spec.Checks {
		return &spec.Checks{DelayUS: 500, Actions: []spec.Action{{Steps: step(!fail, r.Intn(800))}}}
	}
	p := spec.Plan{Name: "p0"}
	if r.Intn(2) == 0 {
		p.Pre = one(false)
	}
	if r.Intn(2) == 0 {
		p.Post = one(r.Intn(5) == 0)
	}
	if r.Intn(2) == 0 {
		p.Deferred = one(false)
	}
	for b := 0; b < 1+r.Intn(2); b++ {
		blk := spec.Block{Conc: 1, Tol: r.Intn(2)}
		if r.Intn(3) == 0 {
			blk.Pre = one(false)
		}
		if r.Intn(3) == 0 {
			blk.Post = one(false)
		}
		if r.Intn(3) == 0 {
			blk.Deferred = one(false)
		}
		for s := 0; s < 1+r.Intn(3); s++ {
			var sq spec.Seq
			for a := 0; a < 1+r.Intn(3); a++ {
				ac := spec.Action{Steps: step(r.Intn(6) != 0, r.Intn(800))}
				if r.Intn(4) == 0 {
					ac.Retries = 1 + r.Intn(2)
					ac.Steps = append([]plug.Step{{Out: plug.Transient, SleepUS: r.Intn(500)}}, ac.Steps...)
				}
				sq.Actions = append(sq.Actions, ac)
			}
			blk.Seqs = append(blk.Seqs, sq)
		}
		p.Blocks = append(p.Blocks, blk)
	}
	p.AssignTags()
	return p
}

// c08FaultChild runs one sequential plan on a vault whose k-th write fails; every event is journalled
// synchronously, because the expected end of this process is log.Fatalf.
func c08FaultChild() int {
	ctx := context.Background()
	seed := int64(envInt("VERIF_C08_SEED", 1))
	failAt := envInt("VERIF_C08_FAILAT", 1)
	jf, err := os.OpenFile(os.Getenv("VERIF_C08_JOURNAL"), os.O_CREATE|os.O_WRONLY|os.O_APPEND, 0o644)
	if err != nil {
		return 3
	}
	r := rand.New(rand.NewSource(seed))
	ps := seqPlan(r)
	env, err := eng.NewEnv(ctx, seed, 0)
	if err != nil {
		fmt.Fprintln(jf, "ERR newenv", err)
		return 3
	}
	env.Log.Hook = func(e *plug.Event) {
		fmt.Fprintf(jf, "EV %d %s %s %s %q\n", e.Seq, e.Kind, e.Obj, e.Tag, e.VErr)
	}
	id, err := env.WS.Submit(ctx, ps.Build())
	if err != nil {
		fmt.Fprintln(jf, "ERR submit", err)
		return 3
	}
	// the create is write number 1; failures are injected into the execution writes only
	env.Rec.FailAt = env.Rec.Writes() + failAt
	if err := env.WS.Start(ctx, id); err != nil {
		fmt.Fprintln(jf, "ERR start", err)
		return 3
	}
	p, _, ok := eng.WaitPlan(env.WS, id, 20*time.Second)
	if !ok {
		fmt.Fprintln(jf, "WAITHANG")
		return 0
	}
	st := -1
	if p != nil && p.State != nil {
		st = int(p.State.Status)
	}
	fmt.Fprintf(jf, "WAITRET %d\n", st)
	return 0
}

func c08Fault(c *Ctx, idx int) CaseResult {
	r := gen.Rand(c.Seed, "C08fault", idx)
	res := CaseResult{Counters: map[string]int{}}
	seed := r.Int63()
	// number of execution writes of this plan: run it once without faults (in-process) to size k
	ps := seqPlan(rand.New(rand.NewSource(seed)))
	dry := eng.Execute(&eng.Case{Plans: []spec.Plan{ps}, VaultSeed: seed, WaitTimeoutMS: 20000, GraceMS: 10})
	nw := 0
	for _, e := range dry.Events {
		if e.Kind == "write" {
			nw++
		}
	}
	if nw == 0 || dry.Err != "" {
		res.Verdict, res.Note = "inconclusive", "dry run produced no writes: "+dry.Err
		return res
	}
	failAt := 1 + r.Intn(nw)
	journal := filepath.Join(c.Scratch, fmt.Sprintf("c08fault-%d.journal", idx))
	self, _ := os.Executable()
	cmd := exec.Command(self, "-test.run", "^$")
	cmd.Env = append(os.Environ(), "VERIF_CHILD=c08fault", fmt.Sprintf("VERIF_C08_SEED=%d", seed), fmt.Sprintf("VERIF_C08_FAILAT=%d", failAt), "VERIF_C08_JOURNAL="+journal,
		"GORACE=halt_on_error=0 exitcode=0 log_path="+journal+".race")
	errf, _ := os.Create(journal + ".err")
	cmd.Stdout, cmd.Stderr = errf, errf
	done := make(chan error, 1)
	if err := cmd.Start(); err != nil {
		res.Verdict, res.Note = "inconclusive", "cannot start fault child: "+err.Error()
		return res
	}
	go func() { done <- cmd.Wait() }()
	var werr error
	select {
	case werr = <-done:
	case <-time.After(60 * time.Second):
		syscall.Kill(cmd.Process.Pid, syscall.SIGKILL)
		<-done
		res.Verdict, res.Note = "inconclusive", "fault child did not end within 60 s"
		errf.Close()
		return res
	}
	errf.Close()
	b, _ := os.ReadFile(journal)
	lines := strings.Split(string(b), "\n")
	failedAt, beginsAfter, waitRet := -1, 0, ""
	firstAfter := ""
	for _, ln := range lines {
		f := strings.Fields(ln)
		if len(f) >= 3 && f[0] == "EV" {
			if strings.Contains(ln, "injected write failure") && failedAt < 0 {
				failedAt = len(f)
				fmt.Sscan(f[1], &failedAt)
				continue
			}
			if failedAt >= 0 && f[2] == "begin" {
				beginsAfter++
				if firstAfter == "" {
					firstAfter = ln
				}
			}
		}
		if len(f) >= 1 && (f[0] == "WAITRET" || f[0] == "WAITHANG") {
			waitRet = ln
		}
	}
	res.Counters["fault_cases"]++
	res.Events = len(lines)
	if failedAt < 0 {
		res.Verdict, res.Note = "inconclusive", fmt.Sprintf("the injected failure at write %d of %d was never reached (%s)", failAt, nw, waitRet)
		return res
	}
	res.Counters["fault_reached"]++
	if werr == nil {
		res.Counters["fault_child_survived"]++
	}
	if beginsAfter > 0 {
		res.Viols = append(res.Viols, ev.V("C08", "acted-after-failed-write", "", "storage write %d failed, yet %d plugin invocations began afterwards (strictly sequential plan); first: %s; end of process: %v %s", failAt, beginsAfter, firstAfter, werr, waitRet))
	} else if waitRet != "" && strings.HasPrefix(waitRet, "WAITRET") {
		res.Viols = append(res.Viols, ev.V("C08", "finished-despite-failed-write", "", "storage write %d failed, yet the plan ran to the end and Wait returned (%s): the waiter was released although a state change was not durable", failAt, waitRet))
	}
	res.Nontriv = hashStr(fmt.Sprint("fault", ps, failAt))
	res.ISig = res.Nontriv
	if len(res.Viols) > 0 {
		res.Witness = map[string]any{"plan": ps, "fail_at": failAt, "journal": lines}
	}
	if idx%40 == 9 {
		res.Sample = map[string]any{"mode": "failing storage write", "plan": ps, "fail_at_write": failAt, "writes": nw, "journal_tail": lines[max(0, len(lines)-6):]}
	}
	return res
}

// c08Dispatch: every tenth case is a fault-mode case (failing storage write in a grandchild process).
func c08Dispatch(normal func(c *Ctx, idx int) CaseResult) func(c *Ctx, idx int) CaseResult {
	return func(c *Ctx, idx int) CaseResult {
		if idx%10 == 9 {
			return c08Fault(c, idx)
		}
		if idx%30 == 14 {
			return c08Crash(c, idx)
		}
		return normal(c, idx)
	}
}

// everyNth runs special for every n-th case (idx % n == n-1) and normal otherwise.
// c06Dispatch keeps the exhaustive box (cases 0..485) intact and turns every 15th of the later cases into a crash case.
func c06Dispatch(normal func(c *Ctx, idx int) CaseResult) func(c *Ctx, idx int) CaseResult {
	return func(c *Ctx, idx int) CaseResult {
		if idx >= 486 && (idx-486)%15 == 14 {
			return c06Crash(c, idx)
		}
		return normal(c, idx)
	}
}

// onResidue: case indices with idx mod n == k go to special.
func onResidue(n, k int, special, normal func(c *Ctx, idx int) CaseResult) func(c *Ctx, idx int) CaseResult {
	return func(c *Ctx, idx int) CaseResult {
		if idx%n == k {
			return special(c, idx)
		}
		return normal(c, idx)
	}
}

func everyNth(n int, special, normal func(c *Ctx, idx int) CaseResult) func(c *Ctx, idx int) CaseResult {
	return func(c *Ctx, idx int) CaseResult {
		if idx%n == n-1 {
			return special(c, idx)
		}
		return normal(c, idx)
	}
}
