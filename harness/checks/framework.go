// Package checks is the single test binary holding every property check. The parent (VERIF_PROP set)
// splits the case list into batches and runs each batch in a child process (VERIF_CHILD set) of the
// same binary, collects per-case results, parses race logs, matches known findings and writes evidence.
package checks

import (
	"bufio"
	"bytes"
	"encoding/json"
	"fmt"
	"os"
	"os/exec"
	"path/filepath"
	"runtime"
	"sort"
	"strconv"
	"strings"
	"sync"
	"syscall"
	"time"
	"verifharness/internal/eng"

	"verifharness/internal/ev"
)

// CaseResult is what a child reports for one case.
type CaseResult struct {
	Index    int            `json:"i"`
	Verdict  string         `json:"v"` // held | violated | inconclusive
	Viols    []ev.Violation `json:"viols,omitempty"`
	Nontriv  string         `json:"nt,omitempty"`   // non-empty: signature of a non-trivial case
	ISig     string         `json:"isig,omitempty"` // interleaving / state signature
	Events   int            `json:"ev,omitempty"`
	Counters map[string]int `json:"c,omitempty"`
	Sample   any            `json:"sample,omitempty"`
	Witness  any            `json:"witness,omitempty"` // written to the replay file on violation
	Note     string         `json:"note,omitempty"`
	// Early marks a provisional result journalled before the case ended (kept only if the process dies later).
	Early bool `json:"early,omitempty"`
}

// Prop describes one property check.
type Prop struct {
	ID          string
	Level       string
	Rule        string
	Assumptions []string
	// Cases returns the number of cases of the tier.
	Cases func(tier string) int
	// Batch is the number of cases per child process.
	Batch int
	// PerCaseTimeout bounds a child: batch size x this (watchdog; firing = broken or per DiedIsViolation).
	PerCaseTimeout time.Duration
	// Run executes case idx (in a child).
	Run func(c *Ctx, idx int) CaseResult
	// DiedIsViolation: the property itself forbids the process to die (C12, C16, C17, C20).
	DiedIsViolation bool
	// RaceAttr decides whether a coercion race block belongs to this property.
	RaceAttr func(rb ev.RaceBlock) bool
	// MinNontrivial: fewer distinct non-trivial cases makes the run inconclusive (broken).
	MinNontrivial int
	// Finish lets a property add to coverage / fail the run as inconclusive based on aggregated counters.
	Finish func(tier string, counters map[string]int, cov map[string]any) (inconclusive string)
	// Exhaustive marks tiers that enumerate a finite space completely.
	Exhaustive func(tier string) bool
	// NoRace: run children without inspecting race logs (pure-function properties still build with -race).
	MaxParallel int
}

// Ctx is the child-side context.
type Ctx struct {
	Prop    string
	Tier    string
	Seed    int
	Scratch string // per-child scratch directory
	// Emit journals a provisional result for the running case (used when a late panic may kill the process).
	Emit func(r CaseResult)
}

var registry = map[string]*Prop{}

func register(p *Prop) { registry[p.ID] = p }

func envInt(name string, def int) int {
	if v := os.Getenv(name); v != "" {
		if n, err := strconv.Atoi(v); err == nil {
			return n
		}
	}
	return def
}

// ---------------- child ----------------

func childMain() int {
	prop := os.Getenv("VERIF_PROP")
	p := registry[prop]
	if p == nil {
		fmt.Fprintf(os.Stderr, "unknown property %q\n", prop)
		return 2
	}
	c := &Ctx{Prop: prop, Tier: os.Getenv("VERIF_TIER"), Seed: envInt("VERIF_SEED", 1), Scratch: os.Getenv("VERIF_SCRATCH")}
	from, to := envInt("VERIF_FROM", 0), envInt("VERIF_TO", 0)
	out := os.Getenv("VERIF_OUT")
	jf, err := os.OpenFile(out+".journal", os.O_CREATE|os.O_WRONLY|os.O_APPEND, 0o644)
	if err != nil {
		fmt.Fprintln(os.Stderr, err)
		return 2
	}
	rf, err := os.OpenFile(out+".results", os.O_CREATE|os.O_WRONLY|os.O_APPEND, 0o644)
	if err != nil {
		fmt.Fprintln(os.Stderr, err)
		return 2
	}
	for i := from; i < to; i++ {
		fmt.Fprintf(jf, "START %d\n", i)
		jf.Sync()
		i := i
		c.Emit = func(r CaseResult) {
			r.Index = i
			r.Early = true
			if r.Verdict == "" {
				if len(r.Viols) > 0 {
					r.Verdict = "violated"
				} else {
					r.Verdict = "held"
				}
			}
			if b, err := json.Marshal(r); err == nil {
				rf.Write(append(b, '\n'))
				rf.Sync()
			}
		}
		eng.CappedWaits.Store(0)
		r := p.Run(c, i)
		r.Index = i
		if n := eng.CappedWaits.Load(); n > 0 {
			// a watchdog gave up on an engine that was still making progress: slow, not hung - nothing this case
			// observed after that is a verdict
			r.Verdict = "inconclusive"
			r.Note = fmt.Sprintf("%d wait(s) given up while the engine was still making progress (machine too slow for the watchdog); %d findings of this case discarded", n, len(r.Viols))
			r.Viols = nil
		}
		if r.Verdict == "" {
			if len(r.Viols) > 0 {
				r.Verdict = "violated"
			} else {
				r.Verdict = "held"
			}
		}
		b, err := json.Marshal(r)
		if err != nil {
			b, _ = json.Marshal(CaseResult{Index: i, Verdict: "inconclusive", Note: "marshal: " + err.Error()})
		}
		rf.Write(append(b, '\n'))
		rf.Sync()
		fmt.Fprintf(jf, "DONE %d\n", i)
	}
	return 0
}

// ---------------- parent ----------------

type batchOut struct {
	results []CaseResult
	died    []diedCase
	broken  []string
}

type diedCase struct {
	Index  int
	Stderr string
	Reason string
}

func tail(s string, n int) string {
	if len(s) <= n {
		return s
	}
	return s[len(s)-n:]
}

func runChild(p *Prop, tier string, seed int, from, to int, scratch string, tag string) batchOut {
	var bo batchOut
	self, _ := os.Executable()
	cur := from
	attempt := 0
	for cur < to {
		attempt++
		prefix := filepath.Join(scratch, fmt.Sprintf("%s.%d-%d.%d", tag, from, to, attempt))
		childScratch := prefix + ".d"
		os.MkdirAll(childScratch, 0o755)
		cmd := exec.Command(self, "-test.run", "^$")
		cmd.Env = append(os.Environ(),
			"VERIF_CHILD=1", "VERIF_PROP="+p.ID, "VERIF_TIER="+tier, fmt.Sprintf("VERIF_SEED=%d", seed),
			fmt.Sprintf("VERIF_FROM=%d", cur), fmt.Sprintf("VERIF_TO=%d", to), "VERIF_OUT="+prefix, "VERIF_SCRATCH="+childScratch,
			"GORACE=halt_on_error=0 exitcode=0 log_path="+prefix+".race",
		)
		errf, _ := os.Create(prefix + ".err")
		cmd.Stdout = errf
		cmd.Stderr = errf
		cmd.SysProcAttr = &syscall.SysProcAttr{Setpgid: true}
		if err := cmd.Start(); err != nil {
			bo.broken = append(bo.broken, "cannot start child: "+err.Error())
			return bo
		}
		done := make(chan error, 1)
		go func() { done <- cmd.Wait() }()
		timeout := time.Duration(to-cur)*p.PerCaseTimeout + 60*time.Second
		var werr error
		timedOut := false
		select {
		case werr = <-done:
		case <-time.After(timeout):
			timedOut = true
			syscall.Kill(-cmd.Process.Pid, syscall.SIGQUIT)
			select {
			case werr = <-done:
			case <-time.After(10 * time.Second):
				syscall.Kill(-cmd.Process.Pid, syscall.SIGKILL)
				werr = <-done
			}
		}
		errf.Close()
		// collect results
		lastDone := cur - 1
		early := map[int]CaseResult{}
		if f, err := os.Open(prefix + ".results"); err == nil {
			sc := bufio.NewScanner(f)
			sc.Buffer(make([]byte, 1<<24), 1<<24)
			for sc.Scan() {
				var r CaseResult
				if err := json.Unmarshal(sc.Bytes(), &r); err == nil {
					if r.Early {
						early[r.Index] = r
						continue
					}
					delete(early, r.Index)
					bo.results = append(bo.results, r)
					if r.Index > lastDone {
						lastDone = r.Index
					}
				}
			}
			f.Close()
		}
		if werr == nil && lastDone == to-1 {
			break
		}
		// child died in case lastDone+1
		se, _ := os.ReadFile(prefix + ".err")
		reason := "child exited abnormally: " + fmt.Sprint(werr)
		if timedOut {
			reason = "child watchdog fired (killed with SIGQUIT)"
		}
		if er, ok := early[lastDone+1]; ok && len(er.Viols) > 0 {
			// the case had journalled a verdict before the process died: keep the verdict, note the death
			er.Note = strings.TrimSpace(er.Note + " [the process died after this verdict was journalled: " + reason + "]")
			bo.results = append(bo.results, er)
		} else {
			bo.died = append(bo.died, diedCase{Index: lastDone + 1, Stderr: tail(string(se), 6000), Reason: reason})
		}
		cur = lastDone + 2
		if attempt > 50 {
			bo.broken = append(bo.broken, "too many child deaths in one batch")
			break
		}
	}
	return bo
}

func parentMain() int {
	id := os.Getenv("VERIF_PROP")
	p := registry[id]
	if p == nil {
		fmt.Printf("unknown property %q\n", id)
		return 2
	}
	tier := os.Getenv("VERIF_TIER")
	if tier == "" {
		tier = "quick"
	}
	seed := envInt("VERIF_SEED", 1)
	start := time.Now()

	scratchRoot := filepath.Join(ev.Root, ".scratch")
	os.MkdirAll(scratchRoot, 0o755)
	scratch, err := os.MkdirTemp(scratchRoot, id+"-")
	if err != nil {
		fmt.Println("cannot create scratch:", err)
		return 2
	}
	keepScratch := os.Getenv("VERIF_KEEP") != ""
	defer func() {
		if !keepScratch {
			os.RemoveAll(scratch)
		}
	}()

	known, err := ev.LoadKnown()
	if err != nil {
		fmt.Println("cannot read known findings:", err)
		return 2
	}

	// replay mode: one case, repeated
	if rp := os.Getenv("VERIF_REPLAY"); rp != "" {
		return replay(p, rp, scratch, known)
	}

	n := p.Cases(tier)
	batch := p.Batch
	if batch <= 0 {
		batch = 25
	}
	par := runtime.NumCPU()
	if p.MaxParallel > 0 && p.MaxParallel < par {
		par = p.MaxParallel
	}
	if v := envInt("VERIF_PAR", 0); v > 0 {
		par = v
	}
	// keep at least `par` batches when possible
	if n/batch < par && n >= par {
		batch = (n + par - 1) / par
	}
	type job struct{ from, to int }
	var jobs []job
	// VERIF_FROM (maintenance only, not used by any registered command): start the case list at this index
	for f := envInt("VERIF_FROM", 0); f < n; f += batch {
		jobs = append(jobs, job{f, min(f+batch, n)})
	}
	outs := make([]batchOut, len(jobs))
	var wg sync.WaitGroup
	sem := make(chan struct{}, par)
	for ji, j := range jobs {
		wg.Add(1)
		sem <- struct{}{}
		go func(ji int, j job) {
			defer wg.Done()
			defer func() { <-sem }()
			outs[ji] = runChild(p, tier, seed, j.from, j.to, scratch, "b")
		}(ji, j)
	}
	wg.Wait()

	// aggregate
	var results []CaseResult
	var died []diedCase
	var broken []string
	for _, o := range outs {
		results = append(results, o.results...)
		died = append(died, o.died...)
		broken = append(broken, o.broken...)
	}
	sort.Slice(results, func(i, j int) bool { return results[i].Index < results[j].Index })

	counters := map[string]int{}
	nontriv := map[string]bool{}
	isigs := map[string]bool{}
	events := 0
	inconclusive := 0
	var inconclNotes []string
	var samples []any
	type vrec struct {
		v    ev.Violation
		idx  int
		wit  any
		note string
	}
	var viols []vrec
	for _, r := range results {
		for k, v := range r.Counters {
			counters[k] += v
		}
		if r.Nontriv != "" {
			nontriv[r.Nontriv] = true
		}
		if r.ISig != "" {
			isigs[r.ISig] = true
		}
		events += r.Events
		if r.Verdict == "inconclusive" {
			inconclusive++
			if len(inconclNotes) < 10 {
				inconclNotes = append(inconclNotes, fmt.Sprintf("case %d: %s", r.Index, r.Note))
			}
		}
		if r.Sample != nil && len(samples) < 4 {
			samples = append(samples, r.Sample)
		}
		for _, v := range r.Viols {
			viols = append(viols, vrec{v, r.Index, r.Witness, r.Note})
		}
	}
	for _, d := range died {
		if p.DiedIsViolation {
			viols = append(viols, vrec{ev.V(p.ID, "process-died", classifyDeath(d.Stderr), "the process died while executing case %d: %s", d.Index, d.Reason), d.Index, map[string]any{"stderr_tail": d.Stderr}, ""})
		} else {
			broken = append(broken, fmt.Sprintf("child died in case %d (%s); stderr tail:\n%s", d.Index, d.Reason, tail(d.Stderr, 1500)))
		}
	}

	// race logs
	raceFiles, blocks := ev.ReadRaceLogs(filepath.Join(scratch, "b."))
	raceHere, raceElsewhere, raceHarness := 0, 0, 0
	var foreignRaces []vrec
	raceKeys := map[string]int{}
	for _, rb := range blocks {
		if !rb.InCoercion() || rb.InHook() {
			raceHarness++
			if raceHarness <= 3 {
				broken = append(broken, "race report without coercion frames on both sides (harness race):\n"+tail(rb.Text, 3000))
			}
			continue
		}
		mine := p.RaceAttr != nil && p.RaceAttr(rb)
		claimer := ""
		if !mine {
			// a block no property's table claims belongs to the property whose workload is running
			var ids []string
			for id, q := range registry {
				if q.RaceAttr != nil && q.RaceAttr(rb) {
					ids = append(ids, id)
				}
			}
			sort.Strings(ids)
			if len(ids) > 0 {
				claimer = ids[0]
			}
			mine = claimer == ""
		}
		if mine {
			raceHere++
			k := rb.Key()
			raceKeys[k]++
			if raceKeys[k] == 1 {
				viols = append(viols, vrec{ev.V(p.ID, "race", k, "data race: %s", k), -1, map[string]any{"race_block": rb.Text}, ""})
			}
		} else {
			// a race in code another property's table claims, reached by this property's workload: still a race in
			// the code under test, reported against the claiming property
			raceElsewhere++
			k := claimer + "|" + rb.Key()
			raceKeys[k]++
			if raceKeys[k] == 1 {
				foreignRaces = append(foreignRaces, vrec{ev.V(claimer, "race", rb.Key(), "data race (seen under the %s workload): %s", p.ID, rb.Key()), -1, map[string]any{"race_block": rb.Text}, ""})
			}
		}
	}

	// known findings vs violations
	knownSeen := map[string]int{}
	type newViol struct {
		sig  string
		recs []vrec
	}
	newBySig := map[string]*newViol{}
	var order []string
	for _, v := range viols {
		if v.v.Prop != p.ID {
			counters["foreign_violation:"+v.v.Prop]++
			continue
		}
		if _, ok := ev.IsKnown(known, p.ID, v.v.Sig); ok {
			knownSeen[v.v.Sig]++
			continue
		}
		nv := newBySig[v.v.Sig]
		if nv == nil {
			nv = &newViol{sig: v.v.Sig}
			newBySig[v.v.Sig] = nv
			order = append(order, v.v.Sig)
		}
		nv.recs = append(nv.recs, v)
	}
	for _, k := range known {
		if k.Status == "known" && k.Property == p.ID {
			if knownSeen[k.Signature] > 0 {
				fmt.Printf("KNOWN-FINDING: property=%s %s [%s] (seen %d times in this run)\n", p.ID, k.What, k.Signature, knownSeen[k.Signature])
			} else {
				fmt.Printf("KNOWN-FINDING: property=%s %s [%s] (not reached in this run)\n", p.ID, k.What, k.Signature)
			}
		}
	}
	exit := 0
	nviol := 0
	for _, sig := range order {
		nv := newBySig[sig]
		nviol += len(nv.recs)
		first := nv.recs[0]
		rp, err := ev.WriteReplay(p.ID, fmt.Sprintf("%s-%d-%d-%s", tier, seed, first.idx, sanitize(sig)), map[string]any{
			"property": p.ID, "tier": tier, "seed": seed, "index": first.idx, "signature": sig,
			"message": first.v.Msg, "occurrences": len(nv.recs), "witness": first.wit, "note": first.note,
		})
		if err != nil {
			rp = "<could not write replay: " + err.Error() + ">"
		}
		fmt.Printf("VIOLATION property=%s replay=%s\n", p.ID, rp)
		fmt.Printf("  signature: %s (x%d)\n  %s\n", sig, len(nv.recs), first.v.Msg)
		exit = 1
	}

	for _, fr := range foreignRaces {
		if _, ok := ev.IsKnown(known, fr.v.Prop, fr.v.Sig); ok {
			continue
		}
		rp, err := ev.WriteReplay(fr.v.Prop, fmt.Sprintf("%s-%d-race-under-%s-%s", tier, seed, p.ID, sanitize(fr.v.Sig)), map[string]any{
			"property": fr.v.Prop, "tier": tier, "seed": seed, "index": -1, "signature": fr.v.Sig,
			"message": fr.v.Msg, "witness": fr.wit, "workload_of": p.ID,
		})
		if err != nil {
			rp = "<could not write replay: " + err.Error() + ">"
		}
		fmt.Printf("VIOLATION property=%s replay=%s\n", fr.v.Prop, rp)
		fmt.Printf("  signature: %s\n  %s\n", fr.v.Sig, fr.v.Msg)
		exit = 1
	}

	// evidence
	cov := map[string]any{
		"evaluations":            len(results),
		"distinct_nontrivial":    len(nontriv),
		"rule":                   p.Rule,
		"samples":                samples,
		"events_recorded":        events,
		"distinct_interleavings": len(isigs),
		"inconclusive_cases":     inconclusive,
		"children_died":          len(died),
		"race_log_files":         raceFiles,
		"race_blocks_total":      len(blocks),
		"race_blocks_this_prop":  raceHere,
		"race_blocks_other_prop": raceElsewhere,
		"counters":               counters,
		"known_findings_seen":    knownSeen,
	}
	if p.Exhaustive != nil && p.Exhaustive(tier) {
		cov["exhaustive"] = true
	}
	if len(inconclNotes) > 0 {
		cov["inconclusive_notes"] = inconclNotes
	}
	if len(samples) == 0 {
		cov["samples"] = []any{"<no sample produced>"}
	}
	if p.Finish != nil {
		if why := p.Finish(tier, counters, cov); why != "" {
			broken = append(broken, "inconclusive: "+why)
		}
	}
	if len(results)+len(died) != n {
		broken = append(broken, fmt.Sprintf("only %d of %d cases are accounted for (%d results, %d child deaths)", len(results)+len(died), n, len(results), len(died)))
	}
	if n > 0 && inconclusive*50 > n {
		broken = append(broken, fmt.Sprintf("%d of %d cases inconclusive (> 2%%): %v", inconclusive, n, inconclNotes))
	}
	if len(nontriv) < p.MinNontrivial {
		broken = append(broken, fmt.Sprintf("only %d distinct non-trivial cases (floor %d)", len(nontriv), p.MinNontrivial))
	}
	e := &ev.Evidence{PropertyID: p.ID, Tier: tier, Seed: seed, Level: p.Level, Coverage: cov, Assumptions: p.Assumptions,
		WallS: time.Since(start).Seconds(), Violations: nviol}
	if err := ev.WriteEvidence(e); err != nil {
		fmt.Println("cannot write evidence:", err)
		return 2
	}
	fmt.Printf("%s %s seed=%d: %d cases, %d distinct non-trivial, %d events, %d interleavings, %d inconclusive, %d race blocks (%d here), %d violations, %.1fs\n",
		p.ID, tier, seed, len(results), len(nontriv), events, len(isigs), inconclusive, len(blocks), raceHere, nviol, time.Since(start).Seconds())
	if exit == 0 && len(broken) > 0 {
		for _, b := range broken {
			fmt.Println("BROKEN:", b)
		}
		keepScratch = keepScratch || os.Getenv("VERIF_KEEP_BROKEN") != ""
		return 2
	}
	for _, b := range broken {
		fmt.Println("NOTE:", b)
	}
	return exit
}

func sanitize(s string) string {
	var b bytes.Buffer
	for _, r := range s {
		switch {
		case r >= 'a' && r <= 'z', r >= 'A' && r <= 'Z', r >= '0' && r <= '9', r == '-', r == '_':
			b.WriteRune(r)
		default:
			b.WriteByte('_')
		}
	}
	out := b.String()
	if len(out) > 80 {
		out = out[:80]
	}
	return out
}

func classifyDeath(stderr string) string {
	switch {
	case strings.Contains(stderr, "panic:"):
		// first line after "panic:"
		i := strings.Index(stderr, "panic:")
		line := stderr[i:]
		if j := strings.Index(line, "\n"); j > 0 {
			line = line[:j]
		}
		// strip addresses/ids
		line = strings.Map(func(r rune) rune {
			if r >= '0' && r <= '9' {
				return -1
			}
			return r
		}, line)
		if len(line) > 60 {
			line = line[:60]
		}
		return strings.TrimSpace(line)
	case strings.Contains(stderr, "fatal error:"):
		i := strings.Index(stderr, "fatal error:")
		line := stderr[i:]
		if j := strings.Index(line, "\n"); j > 0 {
			line = line[:j]
		}
		return strings.TrimSpace(line)
	case strings.Contains(stderr, "SIGQUIT"):
		return "hang"
	}
	return "exit"
}

// replay re-runs the case of a replay file up to 50 times.
func replay(p *Prop, path string, scratch string, known []ev.Known) int {
	b, err := os.ReadFile(path)
	if err != nil {
		fmt.Println(err)
		return 2
	}
	var rf struct {
		Tier      string `json:"tier"`
		Seed      int    `json:"seed"`
		Index     int    `json:"index"`
		Signature string `json:"signature"`
	}
	if err := json.Unmarshal(b, &rf); err != nil {
		fmt.Println(err)
		return 2
	}
	if rf.Index < 0 {
		fmt.Println("this replay file records a race report; re-run the check itself to look for it again")
		return 2
	}
	for try := 1; try <= 50; try++ {
		bo := runChild(p, rf.Tier, rf.Seed, rf.Index, rf.Index+1, scratch, fmt.Sprintf("r%d", try))
		for _, d := range bo.died {
			fmt.Printf("try %d: child died: %s\n%s\n", try, d.Reason, tail(d.Stderr, 3000))
			if p.DiedIsViolation {
				fmt.Printf("VIOLATION property=%s replay=%s\n", p.ID, path)
				return 1
			}
		}
		for _, r := range bo.results {
			for _, v := range r.Viols {
				if v.Prop != p.ID {
					continue
				}
				fmt.Printf("try %d: %s: %s\n", try, v.Sig, v.Msg)
				if _, ok := ev.IsKnown(known, p.ID, v.Sig); ok {
					continue
				}
				fmt.Printf("VIOLATION property=%s replay=%s\n", p.ID, path)
				return 1
			}
		}
	}
	fmt.Println("not reproduced in 50 tries")
	return 0
}
