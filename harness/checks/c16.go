package checks

import (
	"fmt"
	"math/rand"
	"regexp"
	"sort"
	"strings"
	"time"

	"github.com/element-of-surprise/coercion"
	preg "github.com/element-of-surprise/coercion/plugins/registry"
	"github.com/element-of-surprise/coercion/workflow"
	"github.com/element-of-surprise/coercion/workflow/context"
	"github.com/google/uuid"

	"verifharness/internal/ev"
	"verifharness/internal/gen"
	"verifharness/internal/plug"
	"verifharness/internal/store"
)

// C16: Submit admits exactly the well-formed plans; rejects leave no trace (DESIGN §C16).
//
// One case = one fresh in-memory sqlite vault + registry + Workstream and c16PlansPerCase submissions.
// Every submission is a valid plan of random shape plus 0-3 structural mutations, built twice from the
// same PRNG state: one copy is handed to Submit (which mutates it), the untouched twin feeds the
// reference validator and the expected definition.

const c16PlansPerCase = 3

// ---------------------------------------------------------------------------------------------------
// reference validator: written from the property statement only. It returns the (sorted, distinct)
// classes of the rules the plan breaks; an empty result means "well formed".
// ---------------------------------------------------------------------------------------------------

type c16Ref struct {
	reg     *preg.Register
	reasons map[string]bool
	keys    map[uuid.UUID]int
}

func c16Reference(p *workflow.Plan, reg *preg.Register) []string {
	v := &c16Ref{reg: reg, reasons: map[string]bool{}, keys: map[uuid.UUID]int{}}
	v.plan(p)
	for _, n := range v.keys {
		if n > 1 {
			v.reasons["key-duplicate"] = true
		}
	}
	out := make([]string, 0, len(v.reasons))
	for r := range v.reasons {
		out = append(out, r)
	}
	sort.Strings(out)
	return out
}

func (v *c16Ref) bad(class string) { v.reasons[class] = true }

// owned: id and state are engine-owned on every object.
func (v *c16Ref) owned(kind string, id uuid.UUID, st *workflow.State) {
	if id != uuid.Nil {
		v.bad(kind + ".id")
	}
	if st != nil {
		v.bad(kind + ".state")
	}
}

func (v *c16Ref) named(kind, name, descr string) {
	if name == "" {
		v.bad(kind + ".name")
	}
	if descr == "" {
		v.bad(kind + ".descr")
	}
}

func (v *c16Ref) key(kind string, k uuid.UUID) {
	if k == uuid.Nil {
		return
	}
	if k.Version() != 7 {
		v.bad(kind + ".key-version")
	}
	v.keys[k]++
}

func (v *c16Ref) plan(p *workflow.Plan) {
	if p == nil {
		v.bad("nil-plan")
		return
	}
	v.owned("plan", p.ID, p.State)
	v.named("plan", p.Name, p.Descr)
	if p.Reason != workflow.FRUnknown {
		v.bad("plan.reason")
	}
	if !p.SubmitTime.IsZero() {
		v.bad("plan.submittime")
	}
	for _, c := range []*workflow.Checks{p.BypassChecks, p.PreChecks, p.ContChecks, p.PostChecks, p.DeferredChecks} {
		v.checks(c)
	}
	if len(p.Blocks) == 0 {
		v.bad("plan.blocks-empty")
	}
	for _, b := range p.Blocks {
		v.block(b)
	}
}

func (v *c16Ref) checks(c *workflow.Checks) {
	if c == nil { // an absent group is fine
		return
	}
	v.owned("checks", c.ID, c.State)
	v.key("checks", c.Key)
	if len(c.Actions) == 0 {
		v.bad("checks.actions-empty")
	}
	for _, a := range c.Actions {
		v.action(a)
	}
}

func (v *c16Ref) block(b *workflow.Block) {
	if b == nil {
		v.bad("nil-block")
		return
	}
	v.owned("block", b.ID, b.State)
	v.named("block", b.Name, b.Descr)
	v.key("block", b.Key)
	for _, c := range []*workflow.Checks{b.BypassChecks, b.PreChecks, b.ContChecks, b.PostChecks, b.DeferredChecks} {
		v.checks(c)
	}
	if len(b.Sequences) == 0 {
		v.bad("block.sequences-empty")
	}
	for _, s := range b.Sequences {
		v.seq(s)
	}
}

func (v *c16Ref) seq(s *workflow.Sequence) {
	if s == nil {
		v.bad("nil-sequence")
		return
	}
	v.owned("seq", s.ID, s.State)
	v.named("seq", s.Name, s.Descr)
	v.key("seq", s.Key)
	if len(s.Actions) == 0 {
		v.bad("seq.actions-empty")
	}
	for _, a := range s.Actions {
		v.action(a)
	}
}

func (v *c16Ref) action(a *workflow.Action) {
	if a == nil {
		v.bad("nil-action")
		return
	}
	v.owned("action", a.ID, a.State)
	v.named("action", a.Name, a.Descr)
	v.key("action", a.Key)
	if a.Attempts != nil {
		v.bad("action.attempts")
	}
	if a.Timeout != 0 && a.Timeout < 5*time.Second {
		v.bad("action.timeout")
	}
	p := v.reg.Plugin(a.Plugin)
	if p == nil {
		v.bad("action.plugin-unknown")
		return
	}
	if err := p.ValidateReq(a.Req); err != nil {
		v.bad("action.req-rejected")
	}
}

// ---------------------------------------------------------------------------------------------------
// object enumeration (own walker: tolerates nil entries, unlike walk.Plan)
// ---------------------------------------------------------------------------------------------------

type c16Obj struct {
	kind    string // plan block checks seq action
	plan    *workflow.Plan
	block   *workflow.Block
	checks  *workflow.Checks
	seq     *workflow.Sequence
	action  *workflow.Action
	inCheck bool // action only: its parent is a Checks group
}

func c16Objects(p *workflow.Plan) []c16Obj {
	var out []c16Obj
	if p == nil {
		return out
	}
	addChecks := func(c *workflow.Checks) {
		if c == nil {
			return
		}
		out = append(out, c16Obj{kind: "checks", checks: c})
		for _, a := range c.Actions {
			if a != nil {
				out = append(out, c16Obj{kind: "action", action: a, inCheck: true})
			}
		}
	}
	out = append(out, c16Obj{kind: "plan", plan: p})
	for _, c := range []*workflow.Checks{p.BypassChecks, p.PreChecks, p.ContChecks, p.PostChecks, p.DeferredChecks} {
		addChecks(c)
	}
	for _, b := range p.Blocks {
		if b == nil {
			continue
		}
		out = append(out, c16Obj{kind: "block", block: b})
		for _, c := range []*workflow.Checks{b.BypassChecks, b.PreChecks, b.ContChecks, b.PostChecks, b.DeferredChecks} {
			addChecks(c)
		}
		for _, s := range b.Sequences {
			if s == nil {
				continue
			}
			out = append(out, c16Obj{kind: "seq", seq: s})
			for _, a := range s.Actions {
				if a != nil {
					out = append(out, c16Obj{kind: "action", action: a})
				}
			}
		}
	}
	return out
}

func (o c16Obj) idState() (uuid.UUID, *workflow.State) {
	switch o.kind {
	case "plan":
		return o.plan.ID, o.plan.State
	case "block":
		return o.block.ID, o.block.State
	case "checks":
		return o.checks.ID, o.checks.State
	case "seq":
		return o.seq.ID, o.seq.State
	}
	return o.action.ID, o.action.State
}

func (o c16Obj) setID(id uuid.UUID) {
	switch o.kind {
	case "plan":
		o.plan.ID = id
	case "block":
		o.block.ID = id
	case "checks":
		o.checks.ID = id
	case "seq":
		o.seq.ID = id
	case "action":
		o.action.ID = id
	}
}

func (o c16Obj) setState(s *workflow.State) {
	switch o.kind {
	case "plan":
		o.plan.State = s
	case "block":
		o.block.State = s
	case "checks":
		o.checks.State = s
	case "seq":
		o.seq.State = s
	case "action":
		o.action.State = s
	}
}

// keyPtr returns the Key field of a keyed object (plans have no key).
func (o c16Obj) keyPtr() *uuid.UUID {
	switch o.kind {
	case "block":
		return &o.block.Key
	case "checks":
		return &o.checks.Key
	case "seq":
		return &o.seq.Key
	case "action":
		return &o.action.Key
	}
	return nil
}

func c16Pick(r *rand.Rand, objs []c16Obj, ok func(o c16Obj) bool) (c16Obj, bool) {
	var cand []c16Obj
	for _, o := range objs {
		if ok(o) {
			cand = append(cand, o)
		}
	}
	if len(cand) == 0 {
		return c16Obj{}, false
	}
	return cand[r.Intn(len(cand))], true
}

// ---------------------------------------------------------------------------------------------------
// generator
// ---------------------------------------------------------------------------------------------------

// c16UUID builds a uuid of the given version from PRNG bytes (deterministic, so that the twin gets the same one).
func c16UUID(r *rand.Rand, version byte) uuid.UUID {
	var u uuid.UUID
	r.Read(u[:])
	u[6] = (u[6] & 0x0f) | (version << 4)
	u[8] = (u[8] & 0x3f) | 0x80
	return u
}

var c16Names = []string{"n", "deploy", "with 'quotes'", "unicode ✓ 日本語", " padded ", "semi;colon -- x", "$id %s {}"}

func c16Name(r *rand.Rand, prefix string, n *int) string {
	*n++
	return fmt.Sprintf("%s%d %s", prefix, *n, c16Names[r.Intn(len(c16Names))])
}

func c16Action(r *rand.Rand, check bool, n *int) *workflow.Action {
	a := &workflow.Action{Name: c16Name(r, "a", n), Descr: c16Name(r, "ad", n)}
	if r.Intn(3) == 0 {
		a.Key = c16UUID(r, 7)
	}
	a.Timeout = []time.Duration{0, 0, 5 * time.Second, 30 * time.Second, 5*time.Second + 1, 2 * time.Hour}[r.Intn(6)]
	a.Retries = r.Intn(4)
	ptr := r.Intn(3) == 0
	// a sequence action may also name a check plugin (a registered plugin that accepts its request)
	isChk := check
	if !check && r.Intn(10) == 0 {
		isChk = true
	}
	switch {
	case isChk && ptr:
		a.Plugin = plug.ChkP
	case isChk:
		a.Plugin = plug.Chk
	case ptr:
		a.Plugin = plug.ActP
	default:
		a.Plugin = plug.Act
	}
	req := plug.Req{Plan: "c16", Tag: fmt.Sprintf("t%d", *n)}
	if r.Intn(2) == 0 {
		req.Steps = []plug.Step{{Out: plug.OK}}
	}
	if ptr {
		a.Req = &req
	} else {
		a.Req = req
	}
	return a
}

func c16Checks(r *rand.Rand, n *int) *workflow.Checks {
	c := &workflow.Checks{Delay: []time.Duration{0, time.Second, 30 * time.Second, 90 * time.Second}[r.Intn(4)]}
	if r.Intn(3) == 0 {
		c.Key = c16UUID(r, 7)
	}
	for i := 0; i < 1+r.Intn(2); i++ {
		c.Actions = append(c.Actions, c16Action(r, true, n))
	}
	return c
}

func c16Groups(r *rand.Rand, n *int, pg float64) (g [5]*workflow.Checks) {
	for i := range g {
		if r.Float64() < pg {
			g[i] = c16Checks(r, n)
		}
	}
	return g
}

// c16ValidPlan builds a well-formed plan of random shape.
func c16ValidPlan(r *rand.Rand) *workflow.Plan {
	n := 0
	p := &workflow.Plan{Name: c16Name(r, "p", &n), Descr: c16Name(r, "pd", &n)}
	if r.Intn(2) == 0 {
		p.GroupID = c16UUID(r, 7)
	}
	switch r.Intn(3) {
	case 0:
		p.Meta = []byte(c16Names[r.Intn(len(c16Names))])
	case 1:
		p.Meta = []byte{}
	}
	pg := []float64{0, 0.25, 0.5}[r.Intn(3)]
	g := c16Groups(r, &n, pg)
	p.BypassChecks, p.PreChecks, p.ContChecks, p.PostChecks, p.DeferredChecks = g[0], g[1], g[2], g[3], g[4]
	for b := 0; b < 1+r.Intn(3); b++ {
		blk := &workflow.Block{Name: c16Name(r, "b", &n), Descr: c16Name(r, "bd", &n),
			EntranceDelay:     []time.Duration{0, time.Millisecond, time.Minute}[r.Intn(3)],
			ExitDelay:         []time.Duration{0, time.Second}[r.Intn(2)],
			Concurrency:       []int{1, 1, 2, 7, 0, -3}[r.Intn(6)],
			ToleratedFailures: []int{0, 0, 1, -1, 5}[r.Intn(5)]}
		if r.Intn(3) == 0 {
			blk.Key = c16UUID(r, 7)
		}
		g := c16Groups(r, &n, pg)
		blk.BypassChecks, blk.PreChecks, blk.ContChecks, blk.PostChecks, blk.DeferredChecks = g[0], g[1], g[2], g[3], g[4]
		for s := 0; s < 1+r.Intn(3); s++ {
			sq := &workflow.Sequence{Name: c16Name(r, "s", &n), Descr: c16Name(r, "sd", &n)}
			if r.Intn(3) == 0 {
				sq.Key = c16UUID(r, 7)
			}
			for a := 0; a < 1+r.Intn(3); a++ {
				sq.Actions = append(sq.Actions, c16Action(r, false, &n))
			}
			blk.Sequences = append(blk.Sequences, sq)
		}
		p.Blocks = append(p.Blocks, blk)
	}
	return p
}

// c16Mut describes one applied mutation: what, and at which kind of object.
type c16Mut struct {
	Kind string `json:"m"`
	At   string `json:"at"`
}

func (m c16Mut) String() string { return m.Kind + "@" + m.At }

var c16MutKinds = []string{
	"blank-name", "blank-descr", "drop-children", "preset-id", "preset-state", "preset-attempts", "preset-reason",
	"preset-submittime", "dup-key", "key-version", "timeout", "unknown-plugin", "wrong-req", "nil-entry", "nil-plan",
	"noncheck-in-check",
}

// c16Mutate applies one PRNG-chosen mutation to *pp at a PRNG-chosen object. ok=false: not applicable here.
func c16Mutate(r *rand.Rand, pp **workflow.Plan) (c16Mut, bool) {
	return c16MutateKind(r, pp, c16MutKinds[r.Intn(len(c16MutKinds))])
}

func c16MutateKind(r *rand.Rand, pp **workflow.Plan, kind string) (c16Mut, bool) {
	if kind == "nil-plan" {
		if r.Intn(4) != 0 { // keep the nil plan rare: it hides every other mutation
			return c16Mut{}, false
		}
		*pp = nil
		return c16Mut{kind, "plan"}, true
	}
	p := *pp
	objs := c16Objects(p)
	if len(objs) == 0 {
		return c16Mut{}, false
	}
	all := func(c16Obj) bool { return true }
	isAction := func(o c16Obj) bool { return o.kind == "action" }
	named := func(o c16Obj) bool { return o.kind != "checks" }
	switch kind {
	case "blank-name", "blank-descr":
		o, _ := c16Pick(r, objs, named)
		var name, descr *string
		switch o.kind {
		case "plan":
			name, descr = &o.plan.Name, &o.plan.Descr
		case "block":
			name, descr = &o.block.Name, &o.block.Descr
		case "seq":
			name, descr = &o.seq.Name, &o.seq.Descr
		case "action":
			name, descr = &o.action.Name, &o.action.Descr
		}
		if kind == "blank-name" {
			*name = ""
		} else {
			*descr = ""
		}
		return c16Mut{kind, o.kind}, true
	case "drop-children":
		o, _ := c16Pick(r, objs, func(o c16Obj) bool { return o.kind != "action" })
		empty := r.Intn(2) == 0 // nil slice or empty non-nil slice: both have no child
		switch o.kind {
		case "plan":
			o.plan.Blocks = nil
			if empty {
				o.plan.Blocks = []*workflow.Block{}
			}
		case "block":
			o.block.Sequences = nil
			if empty {
				o.block.Sequences = []*workflow.Sequence{}
			}
		case "seq":
			o.seq.Actions = nil
			if empty {
				o.seq.Actions = []*workflow.Action{}
			}
		case "checks":
			o.checks.Actions = nil
			if empty {
				o.checks.Actions = []*workflow.Action{}
			}
		}
		return c16Mut{kind, o.kind}, true
	case "preset-id":
		o, _ := c16Pick(r, objs, all)
		o.setID(c16UUID(r, []byte{7, 7, 4}[r.Intn(3)]))
		return c16Mut{kind, o.kind}, true
	case "preset-state":
		o, _ := c16Pick(r, objs, all)
		st := &workflow.State{Status: []workflow.Status{workflow.Running, workflow.Completed, workflow.Failed, workflow.Stopped}[r.Intn(4)]}
		if r.Intn(2) == 0 {
			st.Start = time.Unix(1700000000+r.Int63n(1e6), 0).UTC()
		}
		o.setState(st)
		return c16Mut{kind, o.kind}, true
	case "preset-attempts":
		o, ok := c16Pick(r, objs, isAction)
		if !ok {
			return c16Mut{}, false
		}
		t := time.Unix(1700000000+r.Int63n(1e6), 0).UTC()
		o.action.Attempts = []*workflow.Attempt{{Resp: plug.Resp{Tok: "preset"}, Start: t, End: t.Add(time.Second)}}
		return c16Mut{kind, "action"}, true
	case "preset-reason":
		p.Reason = []workflow.FailureReason{workflow.FRPreCheck, workflow.FRBlock, workflow.FRPostCheck, workflow.FRContCheck,
			workflow.FRDeferredCheck, workflow.FRStopped, workflow.FRExceedRecovery}[r.Intn(7)]
		return c16Mut{kind, "plan"}, true
	case "preset-submittime":
		p.SubmitTime = time.Unix(1700000000+r.Int63n(1e6), 0).UTC()
		return c16Mut{kind, "plan"}, true
	case "dup-key":
		keyed := func(o c16Obj) bool { return o.kind != "plan" }
		a, ok := c16Pick(r, objs, keyed)
		if !ok {
			return c16Mut{}, false
		}
		b, ok := c16Pick(r, objs, func(o c16Obj) bool { return keyed(o) && o.keyPtr() != a.keyPtr() })
		if !ok {
			return c16Mut{}, false
		}
		if *a.keyPtr() == uuid.Nil {
			*a.keyPtr() = c16UUID(r, 7)
		}
		*b.keyPtr() = *a.keyPtr()
		at := "same-kind"
		if a.kind != b.kind {
			at = "cross-kind"
		}
		return c16Mut{kind, at}, true
	case "key-version":
		o, ok := c16Pick(r, objs, func(o c16Obj) bool { return o.kind != "plan" })
		if !ok {
			return c16Mut{}, false
		}
		*o.keyPtr() = c16UUID(r, []byte{4, 4, 1, 6, 8}[r.Intn(5)])
		return c16Mut{kind, o.kind}, true
	case "timeout":
		o, ok := c16Pick(r, objs, isAction)
		if !ok {
			return c16Mut{}, false
		}
		i := r.Intn(5)
		o.action.Timeout = []time.Duration{time.Nanosecond, 4999 * time.Millisecond, 5 * time.Second, 0, -time.Second}[i]
		return c16Mut{kind + "=" + []string{"1ns", "4.999s", "5s", "0", "-1s"}[i], "action"}, true
	case "unknown-plugin":
		o, ok := c16Pick(r, objs, isAction)
		if !ok {
			return c16Mut{}, false
		}
		o.action.Plugin = []string{"nope", "", "Act", "act2"}[r.Intn(4)]
		return c16Mut{kind, "action"}, true
	case "wrong-req":
		o, ok := c16Pick(r, objs, isAction)
		if !ok {
			return c16Mut{}, false
		}
		i := r.Intn(5)
		switch i {
		case 0: // the other flavour (value <-> pointer)
			switch q := o.action.Req.(type) {
			case plug.Req:
				o.action.Req = &q
			case *plug.Req:
				if q != nil {
					o.action.Req = *q
				} else {
					o.action.Req = plug.Req{}
				}
			default:
				o.action.Req = struct{}{}
			}
		case 1:
			o.action.Req = nil
		case 2:
			o.action.Req = "a string"
		case 3:
			o.action.Req = (*plug.Req)(nil)
		case 4:
			o.action.Req = plug.Resp{Tok: "not a request"}
		}
		return c16Mut{kind + "=" + []string{"flavour", "nil", "string", "typed-nil", "resp"}[i], "action"}, true
	case "nil-entry":
		o, _ := c16Pick(r, objs, func(o c16Obj) bool { return o.kind != "action" })
		switch o.kind {
		case "plan":
			if len(o.plan.Blocks) == 0 {
				return c16Mut{}, false
			}
			o.plan.Blocks[r.Intn(len(o.plan.Blocks))] = nil
			return c16Mut{kind, "block"}, true
		case "block":
			if len(o.block.Sequences) == 0 {
				return c16Mut{}, false
			}
			o.block.Sequences[r.Intn(len(o.block.Sequences))] = nil
			return c16Mut{kind, "seq"}, true
		case "seq":
			if len(o.seq.Actions) == 0 {
				return c16Mut{}, false
			}
			o.seq.Actions[r.Intn(len(o.seq.Actions))] = nil
			return c16Mut{kind, "seq-action"}, true
		case "checks":
			if len(o.checks.Actions) == 0 {
				return c16Mut{}, false
			}
			o.checks.Actions[r.Intn(len(o.checks.Actions))] = nil
			return c16Mut{kind, "check-action"}, true
		}
	case "noncheck-in-check": // still well formed for Submit; Start must refuse it
		o, ok := c16Pick(r, objs, func(o c16Obj) bool { return o.kind == "action" && o.inCheck })
		if !ok {
			return c16Mut{}, false
		}
		if _, isPtr := o.action.Req.(*plug.Req); isPtr {
			o.action.Plugin = plug.ActP
		} else {
			o.action.Plugin = plug.Act
		}
		return c16Mut{kind, "action"}, true
	}
	return c16Mut{}, false
}

// c16Build builds submission k of a case from its own seed: a valid plan plus 0-3 mutations.
func c16Build(seed int64) (*workflow.Plan, []c16Mut) {
	r := rand.New(rand.NewSource(seed))
	p := c16ValidPlan(r)
	want := []int{0, 0, 1, 1, 1, 2, 2, 3}[r.Intn(8)]
	var muts []c16Mut
	if r.Intn(5) == 0 { // extra weight for the plans that Submit must accept and Start must refuse
		if m, ok := c16MutateKind(r, &p, "noncheck-in-check"); ok {
			muts = append(muts, m)
			want++
		}
	}
	for tries := 0; len(muts) < want && tries < 20; tries++ {
		if m, ok := c16Mutate(r, &p); ok {
			muts = append(muts, m)
		}
		if p == nil {
			break
		}
	}
	return p, muts
}

func c16BuildPlan(seed int64) *workflow.Plan {
	p, _ := c16Build(seed)
	return p
}

// c16Dump renders a plan (nil entries included) one object per line, for witnesses.
func c16Dump(p *workflow.Plan) []string {
	if p == nil {
		return []string{"<nil plan>"}
	}
	var out []string
	line := func(depth int, f string, a ...any) {
		out = append(out, strings.Repeat("  ", depth)+fmt.Sprintf(f, a...))
	}
	owned := func(id uuid.UUID, st *workflow.State, key uuid.UUID) string {
		s := ""
		if key != uuid.Nil {
			s += fmt.Sprintf(" key=%s(v%d)", key, key.Version())
		}
		if id != uuid.Nil {
			s += fmt.Sprintf(" ID=%s", id)
		}
		if st != nil {
			s += fmt.Sprintf(" State={%v start-set=%v}", st.Status, !st.Start.IsZero())
		}
		return s
	}
	action := func(d int, a *workflow.Action) {
		if a == nil {
			line(d, "<nil action>")
			return
		}
		line(d, "action name=%q descr=%q plugin=%q timeout=%v retries=%d req=%T(nil=%v) attempts=%d(nil=%v)%s", a.Name, a.Descr, a.Plugin,
			a.Timeout, a.Retries, a.Req, a.Req == nil || a.Req == (*plug.Req)(nil), len(a.Attempts), a.Attempts == nil, owned(a.ID, a.State, a.Key))
	}
	checks := func(d int, names [5]string, gs [5]*workflow.Checks) {
		for i, c := range gs {
			if c == nil {
				continue
			}
			line(d, "%s delay=%v actions=%d(nil=%v)%s", names[i], c.Delay, len(c.Actions), c.Actions == nil, owned(c.ID, c.State, c.Key))
			for _, a := range c.Actions {
				action(d+1, a)
			}
		}
	}
	gn := [5]string{"bypass", "pre", "cont", "post", "deferred"}
	line(0, "plan name=%q descr=%q group=%v meta=%q reason=%d submit-set=%v blocks=%d(nil=%v)%s", p.Name, p.Descr, p.GroupID != uuid.Nil, p.Meta,
		p.Reason, !p.SubmitTime.IsZero(), len(p.Blocks), p.Blocks == nil, owned(p.ID, p.State, uuid.Nil))
	checks(1, gn, [5]*workflow.Checks{p.BypassChecks, p.PreChecks, p.ContChecks, p.PostChecks, p.DeferredChecks})
	for _, b := range p.Blocks {
		if b == nil {
			line(1, "<nil block>")
			continue
		}
		line(1, "block name=%q descr=%q conc=%d tol=%d entrance=%v exit=%v sequences=%d(nil=%v)%s", b.Name, b.Descr, b.Concurrency, b.ToleratedFailures,
			b.EntranceDelay, b.ExitDelay, len(b.Sequences), b.Sequences == nil, owned(b.ID, b.State, b.Key))
		checks(2, gn, [5]*workflow.Checks{b.BypassChecks, b.PreChecks, b.ContChecks, b.PostChecks, b.DeferredChecks})
		for _, sq := range b.Sequences {
			if sq == nil {
				line(2, "<nil sequence>")
				continue
			}
			line(2, "sequence name=%q descr=%q actions=%d(nil=%v)%s", sq.Name, sq.Descr, len(sq.Actions), sq.Actions == nil, owned(sq.ID, sq.State, sq.Key))
			for _, a := range sq.Actions {
				action(3, a)
			}
		}
	}
	return out
}

// ---------------------------------------------------------------------------------------------------
// the check
// ---------------------------------------------------------------------------------------------------

// c16Guard runs f and converts a panic into a message.
func c16Guard(f func()) (panicked string) {
	defer func() {
		if x := recover(); x != nil {
			panicked = fmt.Sprint(x)
		}
	}()
	f()
	return ""
}

var c16ErrStrip = regexp.MustCompile(`"[^"]*"|\([^)]*\)|[0-9]+`)

// c16ErrClass reduces an error of the code under test to its class: quoted and parenthesised parts (names, keys)
// and digits are removed, so that the text no longer depends on the random input.
func c16ErrClass(err error) string {
	if err == nil {
		return "nil"
	}
	s := strings.Join(strings.Fields(c16ErrStrip.ReplaceAllString(err.Error(), "")), " ")
	if len(s) > 70 {
		s = s[:70]
	}
	return s
}

func c16SameCounts(a, b map[string]int) bool {
	if len(a) != len(b) {
		return false
	}
	for k, v := range a {
		if b[k] != v {
			return false
		}
	}
	return true
}

// c16UsesNonCheck reports whether some check action of p names a registered plugin that is not a check plugin.
func c16UsesNonCheck(p *workflow.Plan, reg *preg.Register) bool {
	for _, o := range c16Objects(p) {
		if o.kind == "action" && o.inCheck {
			if pl := reg.Plugin(o.action.Plugin); pl != nil && !pl.IsCheck() {
				return true
			}
		}
	}
	return false
}

func c16Shape(p *workflow.Plan) string {
	cnt := map[string]int{}
	for _, o := range c16Objects(p) {
		k := o.kind
		if o.kind == "action" && o.inCheck {
			k = "chkaction"
		}
		cnt[k]++
	}
	return fmt.Sprintf("b%d s%d a%d g%d ca%d", cnt["block"], cnt["seq"], cnt["action"], cnt["checks"], cnt["chkaction"])
}

func c16Run(c *Ctx, idx int) CaseResult {
	ctx := context.Background()
	r0 := gen.Rand(c.Seed, "C16", idx)
	res := CaseResult{Counters: map[string]int{}}
	log := plug.NewLog()
	reg := plug.Registry(log)
	h, err := store.NewSQLiteMem(ctx, reg)
	if err != nil {
		res.Verdict, res.Note = "inconclusive", "open vault: "+err.Error()
		return res
	}
	// a plan that Start wrongly started keeps running: the vault is then left open (the engine exits the process
	// when a write fails) and the case ends there.
	running := false
	defer func() {
		if !running {
			h.Vault.Close(ctx)
		}
	}()
	ws, err := coercion.New(ctx, reg, h.Vault, coercion.WithNoRecovery())
	if err != nil {
		res.Verdict, res.Note = "inconclusive", "coercion.New: "+err.Error()
		return res
	}

	type subm struct {
		Muts     []string `json:"mutations"`
		Shape    string   `json:"shape"`
		Ref      []string `json:"reference_rejects_for"`
		Accepted bool     `json:"submit_accepted"`
		Err      string   `json:"submit_error,omitempty"`
		Panic    string   `json:"panic,omitempty"`
		Started  string   `json:"start,omitempty"`
		Plan     []string `json:"plan_as_submitted,omitempty"`
	}
	var subs []subm
	var witness []subm
	seen := map[uuid.UUID]bool{} // ids handed out so far in this vault (fresh across submissions too)
	var sig []string
	nontrivial := false

	for k := 0; k < c16PlansPerCase; k++ {
		seed := r0.Int63()
		plan, muts := c16Build(seed)
		twin, _ := c16Build(seed)
		s := subm{Shape: c16Shape(twin)}
		benign := []string{}
		for _, m := range muts {
			s.Muts = append(s.Muts, m.String())
			res.Counters["mut:"+m.Kind]++
		}
		nviol := len(res.Viols)
		add := func(rule, disc, f string, a ...any) {
			res.Viols = append(res.Viols, ev.V("C16", rule, disc, "submission %d (mutations %v): %s", k, s.Muts, fmt.Sprintf(f, a...)))
		}

		reasons := c16Reference(twin, reg)
		s.Ref = reasons
		refAccepts := len(reasons) == 0
		if refAccepts {
			for _, m := range muts {
				benign = append(benign, m.Kind)
			}
			sort.Strings(benign)
		}

		before, err := h.RawTotal(ctx)
		if err != nil {
			res.Verdict, res.Note = "inconclusive", "raw count: "+err.Error()
			return res
		}

		var id uuid.UUID
		var serr error
		s.Panic = c16Guard(func() { id, serr = ws.Submit(ctx, plan) })
		res.Events++
		accepted := s.Panic == "" && serr == nil
		s.Accepted = accepted
		if serr != nil {
			s.Err = serr.Error()
			if len(s.Err) > 200 {
				s.Err = s.Err[:200]
			}
		}
		if s.Panic != "" {
			res.Counters["submit_panicked"]++
			add("panic", "Submit", "Submit panicked (%s); the reference rejects the plan for %v", s.Panic, reasons)
		}

		switch {
		case s.Panic != "":
		case accepted && !refAccepts:
			for _, why := range reasons {
				add("accepted-invalid", why, "Submit returned no error for a plan that is not well formed: %s", why)
			}
		case !accepted && refAccepts:
			add("rejected-valid", c16ErrClass(serr), "Submit rejected a well-formed plan (validity-preserving mutations: %v): %v", uniq(benign), serr)
		}

		after, err := h.RawTotal(ctx)
		if err != nil {
			res.Verdict, res.Note = "inconclusive", "raw count: "+err.Error()
			return res
		}
		res.Events++

		if !accepted {
			res.Counters["rejected"]++
			if !c16SameCounts(before, after) {
				add("reject-left-trace", "rows", "a rejected plan changed the raw store: rows before %v, after %v", before, after)
			}
		} else {
			res.Counters["accepted"]++
			c16CheckStored(ctx, h, id, twin, seen, add, &res)
			if refAccepts && c16UsesNonCheck(twin, reg) && len(res.Viols) == nviol {
				s.Started = c16CheckStart(ctx, ws, h, log, id, add, &res)
				running = s.Started == "started"
			}
		}

		if len(muts) > 0 {
			nontrivial = true
		}
		sig = append(sig, fmt.Sprint(s.Muts, s.Shape, refAccepts))
		if len(reasons) > 0 {
			for _, why := range reasons {
				res.Counters["ref:"+why]++
			}
		} else {
			res.Counters["ref:well-formed"]++
		}
		subs = append(subs, s)
		if len(res.Viols) > nviol {
			s.Plan = c16Dump(c16BuildPlan(seed))
			witness = append(witness, s)
		}
		if running {
			break
		}
	}

	if nontrivial {
		res.Nontriv = hashStr(strings.Join(sig, "|"))
	}
	if idx < 3 {
		res.Sample = map[string]any{"submissions": subs}
	}
	if len(res.Viols) > 0 {
		res.Witness = map[string]any{"violating_submissions": witness, "all_submissions": subs,
			"rebuild": "plan k of the case = c16Build(k-th Int63 of gen.Rand(seed, \"C16\", index))"}
	}
	return res
}

func uniq(xs []string) []string {
	var out []string
	for i, x := range xs {
		if i == 0 || x != xs[i-1] {
			out = append(out, x)
		}
	}
	return out
}

// c16CheckStored: the accepted plan, read back, has fresh pairwise-distinct v7 ids, a pristine NotStarted state on
// every object, no attempts, a submit time, and the submitted definition (after the documented normalisations).
func c16CheckStored(ctx context.Context, h *store.Handle, id uuid.UUID, twin *workflow.Plan, seen map[uuid.UUID]bool,
	add func(rule, disc, f string, a ...any), res *CaseResult) {
	var got *workflow.Plan
	var err error
	if pm := c16Guard(func() { got, err = h.Vault.Read(ctx, id) }); pm != "" {
		add("panic", "Read", "Read of the accepted plan panicked: %s", pm)
		return
	}
	res.Events++
	if err != nil || got == nil {
		add("accepted-not-stored", "", "Submit returned id %s and no error, but the plan cannot be read back: %v", id, err)
		return
	}
	if got.SubmitTime.IsZero() {
		add("submit-time", "zero", "the accepted plan has no submit time")
	}
	local := map[uuid.UUID]bool{}
	for _, o := range c16Objects(got) {
		oid, st := o.idState()
		switch {
		case oid == uuid.Nil:
			add("ids", "nil:"+o.kind, "stored %s has no id", o.kind)
		case oid.Version() != 7:
			add("ids", "version:"+o.kind, "stored %s has id %s of version %d", o.kind, oid, oid.Version())
		case local[oid]:
			add("ids", "not-distinct", "id %s occurs twice in the stored plan (second time on a %s)", oid, o.kind)
		case seen[oid]:
			add("ids", "not-fresh", "id %s of a %s was already used by an earlier plan of this store", oid, o.kind)
		}
		local[oid] = true
		switch {
		case st == nil:
			add("state", "nil:"+o.kind, "stored %s has no state", o.kind)
		case st.Status != workflow.NotStarted:
			add("state", "status:"+o.kind, "stored %s has status %v, want NotStarted", o.kind, st.Status)
		case !st.Start.IsZero() || !st.End.IsZero():
			add("state", "times:"+o.kind, "stored %s has non-zero start/end times", o.kind)
		}
		if o.kind == "action" && len(o.action.Attempts) != 0 {
			add("state", "attempts", "stored action has %d attempts", len(o.action.Attempts))
		}
	}
	for u := range local {
		seen[u] = true
	}
	// definition: the twin after the documented normalisations
	for _, o := range c16Objects(twin) {
		switch o.kind {
		case "action":
			if o.action.Timeout == 0 {
				o.action.Timeout = 30 * time.Second
				res.Counters["norm_timeout"]++
			}
		case "block":
			if o.block.Concurrency < 1 {
				o.block.Concurrency = 1
				res.Counters["norm_concurrency"]++
			}
		}
	}
	if f, msg := store.Diff(store.Canon(twin), store.Canon(got), store.DiffOpts{DefOnly: true}); msg != "" {
		add("definition", f, "the stored plan differs from the submission: %s", msg)
	}
	res.Events++
}

// c16CheckStart: Start on an accepted plan whose check action names a non-check plugin returns an error,
// writes nothing and invokes nothing.
func c16CheckStart(ctx context.Context, ws *coercion.Workstream, h *store.Handle, log *plug.Log, id uuid.UUID,
	add func(rule, disc, f string, a ...any), res *CaseResult) string {
	res.Counters["start_noncheck"]++
	var beforePlan *workflow.Plan
	var err error
	if pm := c16Guard(func() { beforePlan, err = h.Vault.Read(ctx, id) }); pm != "" || err != nil || beforePlan == nil {
		return "not-read"
	}
	want := store.Canon(beforePlan)
	before, err := h.RawTotal(ctx)
	if err != nil {
		return "no-count"
	}
	evBefore := log.Len()
	var serr error
	pm := c16Guard(func() { serr = ws.Start(ctx, id) })
	res.Events++
	if pm != "" {
		add("panic", "Start", "Start panicked: %s", pm)
		return "panic"
	}
	if serr == nil {
		add("start-noncheck", "accepted", "Start returned no error for a plan whose check action names a non-check plugin")
		return "started"
	}
	if log.Len() != evBefore {
		add("start-noncheck", "invoked", "Start refused the plan but %d plugin events were recorded", log.Len()-evBefore)
	}
	after, err := h.RawTotal(ctx)
	if err == nil && !c16SameCounts(before, after) {
		add("start-noncheck", "wrote", "Start refused the plan but the raw store changed: rows before %v, after %v", before, after)
	}
	var afterPlan *workflow.Plan
	if pm := c16Guard(func() { afterPlan, err = h.Vault.Read(ctx, id) }); pm == "" && err == nil && afterPlan != nil {
		if f, msg := store.Diff(want, store.Canon(afterPlan), store.DiffOpts{}); msg != "" {
			add("start-noncheck", "wrote", "Start refused the plan but the stored plan changed (%s): %s", f, msg)
		}
	} else {
		add("start-noncheck", "wrote", "Start refused the plan and it can no longer be read: %v %s", err, pm)
	}
	res.Events++
	return "refused"
}

func init() {
	register(&Prop{
		ID: "C16", Level: "exploration", Batch: 50, PerCaseTimeout: 20 * time.Second,
		Rule: "case i = PRNG(seed,i): one fresh in-memory sqlite vault + Workstream (no recovery) and 3 submissions; each submission is a valid plan of random shape " +
			"(1-3 blocks x 1-3 sequences x 1-3 actions, each of the 10 check groups present with p in {0,.25,.5}, value- and pointer-typed scripted plugins, optional v7 keys, " +
			"timeouts in {0,5s,5s+1ns,30s,2h}, concurrency in {-3,0,1,2,7}) plus 0-3 mutations (0-4 when the extra-weighted non-check mutation comes first), each at a PRNG-chosen object: blank name/description, drop all children (nil or empty slice), " +
			"pre-set id/state/attempts/reason/submit time, duplicate key (same or different kinds), key of version 1/4/6/8, timeout in {1ns,4.999s,5s,0,-1s}, unknown/empty plugin name, " +
			"request of the wrong type (other flavour, nil, typed nil, string, response type), nil block/sequence/action entry, nil plan, check action naming a non-check plugin (still well formed; Start must refuse). " +
			"Not generated (statement silent): whitespace-only names, empty-but-non-nil attempts, zero-valued non-nil State, negative retries, pre-set register, shared sub-objects. " +
			"Oracle: Submit error == nil iff the independent reference validator accepts the untouched twin; no panic; rejected => raw row counts unchanged; " +
			"accepted => read back: v7 ids everywhere, pairwise distinct and unused in this store, NotStarted/zero times, no attempts, SubmitTime set, definition equal to the twin after timeout 0->30s and concurrency<1->1; " +
			"Start on accepted plans with a non-check plugin in a check group: error, no plugin event, store unchanged. " +
			"non-trivial = at least one mutation applied in the case; distinct by hash of the (mutation@object-kind list, shape, reference verdict) of the 3 submissions",
		Cases:           nCases(1500, 34000),
		Run:             c16Run,
		DiedIsViolation: true,
		RaceAttr: func(rb ev.RaceBlock) bool {
			return rb.HasFunc("coercion.(*Workstream).Submit") || rb.HasFunc("workflow.Validate")
		},
		MinNontrivial: 30,
		Assumptions: []string{"storage is the in-memory sqlite vault; 'nothing in storage' is observed as row counts of the five tables",
			"a plugin 'accepts its request' iff its own ValidateReq returns nil (the reference calls the same registry)",
			"the submit time is only required to be set (no wall-clock comparison)"},
		Finish: func(tier string, counters map[string]int, cov map[string]any) string {
			for _, k := range c16MutKinds {
				hit := false
				for name, n := range counters {
					if n > 0 && strings.HasPrefix(name, "mut:"+k) {
						hit = true
					}
				}
				if !hit {
					return "mutation kind never applied: " + k
				}
			}
			if counters["accepted"] == 0 || counters["rejected"] == 0 {
				return "no accepted or no rejected submission"
			}
			if counters["start_noncheck"] == 0 {
				return "Start on a plan with a non-check plugin in a check group was never exercised"
			}
			return ""
		},
	})
}
