package checks

import (
	"bufio"
	"encoding/json"
	"fmt"
	"math/rand"
	"os"
	"os/exec"
	"path/filepath"
	"strings"
	"sync"
	"syscall"
	"time"

	"github.com/element-of-surprise/coercion"
	"github.com/element-of-surprise/coercion/workflow"
	"github.com/element-of-surprise/coercion/workflow/context"
	"github.com/element-of-surprise/coercion/workflow/utils/walk"
	"github.com/google/uuid"

	"verifharness/internal/ev"
	"verifharness/internal/gen"
	"verifharness/internal/plug"
	"verifharness/internal/store"
)

func actionsOf(p *workflow.Plan) []*workflow.Action {
	var out []*workflow.Action
	for it := range walk.Plan(p) {
		if it.Value.Type() == workflow.OTAction {
			out = append(out, it.Action())
		}
	}
	return out
}

// isCheckAction reports whether the j-th action (walk order) sits in a checks group.
func checkPositions(p *workflow.Plan) []bool {
	var out []bool
	for it := range walk.Plan(p) {
		if it.Value.Type() == workflow.OTAction {
			out = append(out, it.Chain[len(it.Chain)-1].Type() == workflow.OTCheck)
		}
	}
	return out
}

func plantBad(p *workflow.Plan, j int, mode string) {
	acts := actionsOf(p)
	chk := checkPositions(p)
	a := acts[j]
	a.Plugin = store.Bad
	if chk[j] {
		a.Plugin = store.BadC
	}
	a.Req = store.BadReq{Tag: fmt.Sprintf("pos%d", j), Mode: mode}
	a.Attempts = nil
}

func canonHash(n *store.Node) string {
	b, _ := json.Marshal(n)
	return hashStr(string(b))
}

// noTrace checks that nothing of plan id is left. Returns a description or "".
func noTrace(ctx context.Context, h *store.Handle, id uuid.UUID) (string, string) {
	if p, err := h.Vault.Read(ctx, id); err == nil {
		return "readable", fmt.Sprintf("Read still succeeds (plan non-nil=%v)", p != nil)
	}
	if ok, err := h.Vault.Exists(ctx, id); err == nil && ok {
		return "exists", "Exists is still true"
	}
	rc, err := h.RawCount(ctx, id)
	if err != nil {
		return "", ""
	}
	for t, n := range rc {
		if n != 0 {
			return "raw-rows:" + t, fmt.Sprintf("%d raw rows/items of the plan remain in %s (%v)", n, t, rc)
		}
	}
	return "", ""
}

func eqCounts(a, b map[string]int) bool {
	if len(a) != len(b) {
		return false
	}
	for k, v := range a {
		if b[k] != v {
			return false
		}
	}
	return true
}

// stripForSubmit turns a stored-shape plan into a fresh, submittable one.
func stripForSubmit(p *workflow.Plan) {
	p.ID = uuid.Nil
	p.State = nil
	p.SubmitTime = time.Time{}
	p.Reason = 0
	for it := range walk.Plan(p) {
		switch it.Value.Type() {
		case workflow.OTBlock:
			b := it.Block()
			b.ID, b.State, b.Key = uuid.Nil, nil, uuid.Nil
		case workflow.OTCheck:
			c := it.Checks()
			c.ID, c.State, c.Key = uuid.Nil, nil, uuid.Nil
		case workflow.OTSequence:
			s := it.Sequence()
			s.ID, s.State, s.Key = uuid.Nil, nil, uuid.Nil
		case workflow.OTAction:
			a := it.Action()
			a.ID, a.State, a.Key, a.Attempts = uuid.Nil, nil, uuid.Nil, nil
			if a.Timeout != 0 && a.Timeout < 5*time.Second {
				a.Timeout = 5 * time.Second
			}
			if a.Retries < 0 {
				a.Retries = 0
			}
		}
	}
}

func c14Run(c *Ctx, idx int) CaseResult {
	if idx%4 == 3 && (idx/4)%6 == 3 {
		return c14CosmosDeath(c, idx)
	}
	if idx%4 == 3 {
		return c14Kill(c, idx)
	}
	ctx := context.Background()
	r := gen.Rand(c.Seed, "C14", idx)
	kind := vaultKinds[(idx/4)%len(vaultKinds)]
	res := CaseResult{Counters: map[string]int{}}
	l := plug.NewLog()
	_ = l
	h, err := openVault(ctx, kind, c.Scratch, idx)
	if err != nil {
		res.Verdict = "inconclusive"
		res.Note = "open vault: " + err.Error()
		return res
	}
	add := func(rule, disc, f string, a ...any) {
		res.Viols = append(res.Viols, ev.V("C14", kind+"/"+rule, disc, f, a...))
	}
	model := store.NewModel()
	do := store.DiffOpts{ActionsAsSet: h.ActionsAsSet}
	o := store.GenOpts{MaxBlocks: 2, MaxSeqs: 2, MaxActions: 2}
	if kind == "cosmos-fake" {
		o = store.GenOpts{MaxBlocks: 1, MaxSeqs: 2, MaxActions: 2}
	}
	var ids []uuid.UUID
	othersIntact := func(when string) {
		for _, id := range ids {
			want := model.Plans[id.String()]
			if want == nil {
				continue
			}
			got, err := h.Vault.Read(ctx, id)
			if err != nil {
				add("other-plan-damaged", "unreadable", "%s: another plan can no longer be read: %v", when, err)
				return
			}
			if f, msg := store.Diff(want, store.Canon(got), do); msg != "" {
				add("other-plan-damaged", f, "%s: another plan changed: %s", when, msg)
				return
			}
			rc, err := h.RawCount(ctx, id)
			if err == nil && kind != "cosmos-fake" {
				wantC := want.Count(nil)
				if rc["plans"] != 1 || rc["blocks"] != wantC["block"] || rc["checks"] != wantC["checks"] || rc["sequences"] != wantC["seq"] || rc["actions"] != wantC["action"] {
					add("other-plan-damaged", "raw-rows", "%s: raw rows of another plan %v do not match its object counts %v", when, rc, wantC)
					return
				}
			}
			if err == nil && kind == "cosmos-fake" {
				total := 0
				for _, n := range want.Count(nil) {
					total += n
				}
				if rc["pages"] != total || rc["search"] != 1 {
					add("other-plan-damaged", "raw-items", "%s: raw items of another plan %v do not match its %d objects", when, rc, total)
					return
				}
			}
		}
	}
	// background plans
	for i := 0; i < 1+r.Intn(2); i++ {
		o.Executed = r.Intn(2) == 0
		p := store.RandPlan(r, o)
		model.Create(p) // before the call: a vault may write into the plan it is given
		if err := h.Vault.Create(ctx, p); err != nil {
			res.Verdict = "inconclusive"
			res.Note = "background Create failed: " + err.Error()
			return res
		}
		ids = append(ids, p.ID)
	}
	othersIntact("after creating the background plans")

	mode := idx % 4
	var trace []string
	switch mode {
	case 0: // fault 1: unencodable request at every action position
		o.Executed = false
		seedPlan := r.Int63()
		m := len(actionsOf(store.RandPlan(rand.New(rand.NewSource(seedPlan)), o)))
		viaSubmit := r.Intn(3) == 0 && kind != "cosmos-fake"
		for j := 0; j < m && len(res.Viols) == 0; j++ {
			p := store.RandPlan(rand.New(rand.NewSource(seedPlan)), o)
			plantBad(p, j, "fail")
			before, _ := h.RawTotal(ctx)
			var err error
			var id uuid.UUID
			if viaSubmit {
				stripForSubmit(p)
				reg := store.Registry(plug.NewLog())
				ws, werr := coercion.New(ctx, reg, h.Vault, coercion.WithNoRecovery())
				if werr != nil {
					res.Verdict = "inconclusive"
					res.Note = "coercion.New: " + werr.Error()
					return res
				}
				_, err = ws.Submit(ctx, p)
				id = p.ID
			} else {
				id = p.ID
				err = h.Vault.Create(ctx, p)
			}
			res.Counters["fault1_positions"]++
			trace = append(trace, fmt.Sprintf("create with unencodable request at action %d/%d (check=%v, submit=%v) -> err=%v", j, m, checkPositions(p)[j], viaSubmit, err != nil))
			if err == nil {
				add("create-succeeded-with-unencodable", map[bool]string{true: "check-action", false: "sequence-action"}[checkPositions(p)[j]], "Create/Submit returned nil although the request of action %d cannot be encoded", j)
			}
			if id != uuid.Nil {
				if d, msg := noTrace(ctx, h, id); d != "" {
					add("partial-create", d, "after a failed Create (unencodable request at action %d of %d): %s", j, m, msg)
				}
			}
			after, _ := h.RawTotal(ctx)
			if !eqCounts(before, after) {
				add("partial-create", "raw-total", "raw store changed across a failed Create: before %v after %v", before, after)
			}
			othersIntact("after a failed Create")
		}
		res.Nontriv = hashStr(fmt.Sprint(kind, "fault1", m, viaSubmit))
	case 1: // uniqueness
		o.Executed = r.Intn(2) == 0
		p1 := store.RandPlan(r, o)
		model.Create(p1)
		if err := h.Vault.Create(ctx, p1); err != nil {
			model.Delete(p1.ID)
			add("create-error", "", "Create failed: %v", err)
			break
		}
		ids = append(ids, p1.ID)
		p2 := store.RandPlan(r, o)
		p2.ID = p1.ID
		err := h.Vault.Create(ctx, p2)
		trace = append(trace, fmt.Sprintf("second Create of the same id -> err=%v", err != nil))
		res.Counters["duplicate_creates"]++
		if err == nil {
			add("duplicate-create-accepted", "", "creating an id twice succeeded")
		}
		othersIntact("after a duplicate Create")
		if rc, err := h.RawCount(ctx, p1.ID); err == nil && kind != "cosmos-fake" {
			if rc["plans"] != 1 {
				add("duplicate-create-rows", "", "raw rows after duplicate create: %v", rc)
			}
		}
		// objects of the rejected second version must not exist
		for _, a := range actionsOf(p2) {
			_ = a
		}
		if n, err := h.Orphans(ctx); err == nil && n != 0 {
			add("duplicate-create-orphans", "", "%d raw rows/items belong to no plan after a rejected duplicate Create", n)
		}
		res.Nontriv = hashStr(fmt.Sprint(kind, "dup", o.Executed, len(actionsOf(p1))))
	case 2: // delete histories
		n := 2 + r.Intn(4)
		for step := 0; step < n*2 && len(res.Viols) == 0; step++ {
			if r.Intn(2) == 0 || len(ids) == 0 {
				o.Executed = r.Intn(2) == 0
				p := store.RandPlan(r, o)
				model.Create(p)
				if err := h.Vault.Create(ctx, p); err != nil {
					model.Delete(p.ID)
					add("create-error", "", "Create failed: %v", err)
					break
				}
				ids = append(ids, p.ID)
				trace = append(trace, "create")
				continue
			}
			i := r.Intn(len(ids))
			id := ids[i]
			if model.Plans[id.String()] == nil {
				continue
			}
			if err := h.Vault.Delete(ctx, id); err != nil {
				add("delete-error", "", "Delete failed: %v", err)
				break
			}
			model.Delete(id)
			trace = append(trace, "delete")
			res.Counters["deletes"]++
			if d, msg := noTrace(ctx, h, id); d != "" {
				add("delete-left-trace", d, "after Delete: %s", msg)
			}
			othersIntact("after Delete of another plan")
			if nOrph, err := h.Orphans(ctx); err == nil && nOrph != 0 {
				add("delete-left-trace", "orphans", "%d raw rows/items belong to no plan after Delete", nOrph)
			}
		}
		res.Nontriv = hashStr(fmt.Sprint(kind, trace))
	}
	if kind == "sqlite-file" {
		h.Vault.Close(ctx)
	}
	res.Events = len(trace)
	res.ISig = hashStr(fmt.Sprint(kind, trace))
	if idx < 8 {
		res.Sample = map[string]any{"vault": kind, "mode": []string{"unencodable-at-every-position", "duplicate-create", "create-delete-history"}[mode], "trace": trace}
	}
	if len(res.Viols) > 0 {
		res.Witness = map[string]any{"vault": kind, "trace": trace}
	}
	return res
}

// ---------- process death inside Create (file-backed sqlite) ----------

// c14KillChild is the grandchild: it creates plans on a file-backed store, journalling an ACK after every
// successful Create; one plan carries a request whose MarshalJSON kills the process (die mode), or the
// parent kills it at a PRNG-chosen time (storm mode).
func c14KillChild() int {
	ctx := context.Background()
	dir := os.Getenv("VERIF_C14_DIR")
	seed := int64(envInt("VERIF_C14_SEED", 1))
	dieAt := envInt("VERIF_C14_DIEPLAN", -1)
	diePos := envInt("VERIF_C14_DIEPOS", 0)
	n := envInt("VERIF_C14_N", 3)
	r := rand.New(rand.NewSource(seed))
	reg := store.Registry(plug.NewLog())
	h, err := store.NewSQLiteFile(ctx, reg, dir)
	if err != nil {
		fmt.Fprintln(os.Stderr, "open:", err)
		return 3
	}
	jf, err := os.OpenFile(filepath.Join(dir, "acks.journal"), os.O_CREATE|os.O_WRONLY|os.O_APPEND, 0o644)
	if err != nil {
		return 3
	}
	if wf := os.Getenv("VERIF_C14_WAITFILE"); wf != "" {
		// syscall mode: the store is open; the parent attaches strace (which kills this process at the N-th
		// write system call of a thread from now on) and then creates the file we wait for
		fmt.Fprintf(jf, "READY\n")
		jf.Sync()
		for k := 0; k < 20000; k++ {
			if _, err := os.Stat(wf); err == nil {
				break
			}
			time.Sleep(time.Millisecond)
		}
	}
	o := store.GenOpts{MaxBlocks: 2, MaxSeqs: 2, MaxActions: 2}
	for i := 0; i < n; i++ {
		o.Executed = r.Intn(2) == 0
		p := store.RandPlan(r, o)
		if i == dieAt {
			acts := actionsOf(p)
			plantBad(p, diePos%len(acts), "die")
		}
		fmt.Fprintf(jf, "TRY %s\n", p.ID)
		jf.Sync()
		// hash and counts of the plan as submitted, taken before the call
		var cnt map[string]int
		hash := ""
		if i != dieAt {
			cnt = store.Canon(p).Count(nil)
			hash = canonHash(store.Canon(p))
		}
		if err := h.Vault.Create(ctx, p); err != nil {
			fmt.Fprintf(jf, "ERR %s %v\n", p.ID, err)
			continue
		}
		fmt.Fprintf(jf, "ACK %s %s %d %d %d %d\n", p.ID, hash, cnt["block"], cnt["checks"], cnt["seq"], cnt["action"])
		jf.Sync()
	}
	fmt.Fprintf(jf, "END\n")
	jf.Sync()
	return 0
}

var (
	c14StraceOnce sync.Once
	c14StraceHave bool
)

// c14StraceOK: strace present (the syscall-level kill injector is optional: without it these cases fall back to
// the die-inside-MarshalJSON mode, and the evidence says so).
func c14StraceOK() bool {
	c14StraceOnce.Do(func() {
		_, err := exec.LookPath("strace")
		c14StraceHave = err == nil
	})
	return c14StraceHave
}

func c14Kill(c *Ctx, idx int) CaseResult {
	ctx := context.Background()
	r := gen.Rand(c.Seed, "C14", idx)
	res := CaseResult{Counters: map[string]int{}}
	add := func(rule, disc, f string, a ...any) {
		res.Viols = append(res.Viols, ev.V("C14", "sqlite-file/"+rule, disc, f, a...))
	}
	dir := filepath.Join(c.Scratch, fmt.Sprintf("kill-%d", idx))
	os.MkdirAll(dir, 0o755)
	storm := (idx/4)%3 == 2
	sysmode := (idx/4)%3 == 1 && c14StraceOK()
	n := 3 + r.Intn(3)
	dieAt := r.Intn(n)
	diePos := r.Intn(12)
	if storm {
		n = 40
		dieAt = -1
	}
	// syscall mode: strace is attached once the store is open and delivers SIGKILL when a thread enters its N-th
	// pwrite64 (a WAL frame or the commit record of a Create: about 40 per plan) or its N-th fsync from then on
	sysCall, sysN := "pwrite64", 1+r.Intn(45*n)
	if sysmode {
		dieAt = -1
		if r.Intn(4) == 0 {
			sysCall, sysN = "fsync", 1+r.Intn(3*n)
		}
	}
	self, _ := os.Executable()
	cmd := exec.Command(self, "-test.run", "^$")
	cmd.Env = append(os.Environ(), "VERIF_CHILD=c14kill", "VERIF_C14_DIR="+dir, fmt.Sprintf("VERIF_C14_SEED=%d", r.Int63()),
		fmt.Sprintf("VERIF_C14_DIEPLAN=%d", dieAt), fmt.Sprintf("VERIF_C14_DIEPOS=%d", diePos), fmt.Sprintf("VERIF_C14_N=%d", n),
		"GORACE=halt_on_error=0 exitcode=0 log_path="+filepath.Join(dir, "race"))
	goFile := filepath.Join(dir, "go")
	if sysmode {
		cmd.Env = append(cmd.Env, "VERIF_C14_WAITFILE="+goFile)
	}
	errf, _ := os.Create(filepath.Join(dir, "child.err"))
	cmd.Stdout, cmd.Stderr = errf, errf
	if err := cmd.Start(); err != nil {
		res.Verdict = "inconclusive"
		res.Note = "cannot start kill child: " + err.Error()
		return res
	}
	done := make(chan error, 1)
	go func() { done <- cmd.Wait() }()
	killedByUs := false
	var strace *exec.Cmd
	if sysmode {
		waitFor := func(file, what string, d time.Duration) bool {
			deadline := time.Now().Add(d)
			for time.Now().Before(deadline) {
				b, _ := os.ReadFile(file)
				if strings.Contains(string(b), what) {
					return true
				}
				time.Sleep(2 * time.Millisecond)
			}
			return false
		}
		attached := false
		if waitFor(filepath.Join(dir, "acks.journal"), "READY", 30*time.Second) {
			strace = exec.Command("strace", "-f", "-p", fmt.Sprint(cmd.Process.Pid), "-o", filepath.Join(dir, "strace.out"),
				"-e", "trace="+sysCall, "-e", fmt.Sprintf("inject=%s:signal=SIGKILL:when=%d", sysCall, sysN))
			sf, _ := os.Create(filepath.Join(dir, "strace.err"))
			strace.Stdout, strace.Stderr = sf, sf
			if strace.Start() == nil {
				attached = waitFor(filepath.Join(dir, "strace.err"), fmt.Sprintf("Process %d attached", cmd.Process.Pid), 10*time.Second)
				go func() { strace.Wait(); sf.Close() }()
			}
		}
		if attached {
			res.Counters["syscall_kill_cases"]++
		} else {
			res.Counters["strace_attach_failed"]++
		}
		os.WriteFile(goFile, []byte("go"), 0o644)
	}
	if storm {
		// wait for the first ACK, then kill after a PRNG-chosen delay
		deadline := time.Now().Add(30 * time.Second)
		for time.Now().Before(deadline) {
			b, _ := os.ReadFile(filepath.Join(dir, "acks.journal"))
			if strings.Contains(string(b), "ACK ") {
				break
			}
			time.Sleep(2 * time.Millisecond)
		}
		time.Sleep(time.Duration(r.Intn(60000)) * time.Microsecond)
		syscall.Kill(cmd.Process.Pid, syscall.SIGKILL)
		killedByUs = true
	}
	select {
	case <-done:
	case <-time.After(60 * time.Second):
		syscall.Kill(cmd.Process.Pid, syscall.SIGKILL)
		<-done
		res.Verdict = "inconclusive"
		res.Note = "kill child did not end within 60 s"
		errf.Close()
		return res
	}
	errf.Close()
	_ = killedByUs
	// read the journal
	type ack struct {
		id, hash string
		cnt      [4]int
	}
	acks := map[string]ack{}
	tried := map[string]bool{}
	ended := false
	if f, err := os.Open(filepath.Join(dir, "acks.journal")); err == nil {
		sc := bufio.NewScanner(f)
		for sc.Scan() {
			parts := strings.Fields(sc.Text())
			switch {
			case len(parts) >= 2 && parts[0] == "TRY":
				tried[parts[1]] = true
			case len(parts) == 7 && parts[0] == "ACK":
				a := ack{id: parts[1], hash: parts[2]}
				fmt.Sscan(parts[3], &a.cnt[0])
				fmt.Sscan(parts[4], &a.cnt[1])
				fmt.Sscan(parts[5], &a.cnt[2])
				fmt.Sscan(parts[6], &a.cnt[3])
				acks[a.id] = a
			case len(parts) == 1 && parts[0] == "END":
				ended = true
			}
		}
		f.Close()
	}
	if strace != nil && strace.Process != nil {
		syscall.Kill(strace.Process.Pid, syscall.SIGTERM) // no-op when the tracee died and strace has gone with it
	}
	if ended && !storm && !sysmode {
		res.Counters["kill_child_survived"]++
	}
	if sysmode {
		if ended {
			res.Counters["syscall_kill_after_last_create"]++
		} else {
			res.Counters["syscall_kill_landed_inside_run"]++
		}
	}
	if len(tried) == 0 && sysmode {
		res.Counters["syscall_kill_before_first_create"]++
		os.RemoveAll(dir)
		return res
	}
	if len(tried) == 0 {
		res.Verdict = "inconclusive"
		se, _ := os.ReadFile(filepath.Join(dir, "child.err"))
		res.Note = "kill child produced no journal: " + tail(string(se), 400)
		return res
	}
	// a second process opens the directory
	reg := store.Registry(plug.NewLog())
	h, err := store.NewSQLiteFile(ctx, reg, dir)
	if err != nil {
		add("reopen-error", "", "store cannot be reopened after the process died inside Create: %v", err)
		return res
	}
	defer h.Vault.Close(ctx)
	res.Counters["kill_cases"]++
	res.Counters["acked_plans"] += len(acks)
	for id := range tried {
		u := uuid.MustParse(id)
		a, acked := acks[id]
		p, err := h.Vault.Read(ctx, u)
		if acked {
			if err != nil {
				add("acked-plan-lost", "", "plan %s was acknowledged by Create but cannot be read after the crash: %v", id, err)
				continue
			}
			if got := canonHash(store.Canon(p)); got != a.hash {
				add("acked-plan-differs", "", "plan %s was acknowledged by Create but reads back different after the crash", id)
			}
			rc, err := h.RawCount(ctx, u)
			if err == nil && (rc["plans"] != 1 || rc["blocks"] != a.cnt[0] || rc["checks"] != a.cnt[1] || rc["sequences"] != a.cnt[2] || rc["actions"] != a.cnt[3]) {
				add("acked-plan-rows", "", "raw rows %v of acknowledged plan do not match its object counts %v", rc, a.cnt)
			}
			continue
		}
		// not acknowledged: either complete (the crash hit between commit and ACK) or no trace
		if err == nil && p != nil {
			// complete? all raw counts must match the tree that was read
			cnt := store.Canon(p).Count(nil)
			rc, rerr := h.RawCount(ctx, u)
			if rerr == nil && (rc["plans"] != 1 || rc["blocks"] != cnt["block"] || rc["checks"] != cnt["checks"] || rc["sequences"] != cnt["seq"] || rc["actions"] != cnt["action"]) {
				add("partial-create", "readable-but-rows-differ", "unacknowledged plan %s is readable but its raw rows %v do not match its tree %v", id, rc, cnt)
			}
			res.Counters["unacked_but_complete"]++
			continue
		}
		rc, rerr := h.RawCount(ctx, u)
		if rerr == nil {
			for t, n := range rc {
				if n != 0 {
					add("partial-create", "raw-rows:"+t, "after the process died inside Create, plan %s is not readable (%v) but %d raw rows remain in %s (%v)", id, err, n, t, rc)
					break
				}
			}
		}
		res.Counters["unacked_no_trace"]++
	}
	if n, err := h.Orphans(ctx); err == nil && n != 0 {
		add("partial-create", "orphans", "%d raw child rows belong to no plan after the crash", n)
	}
	res.Nontriv = hashStr(fmt.Sprint("kill", storm, sysmode, sysCall, sysN, dieAt, diePos, len(acks), len(tried)))
	if sysmode && !ended && len(tried) > len(acks) {
		res.Counters["syscall_kill_inside_a_create"]++
	}
	res.ISig = res.Nontriv
	res.Events = len(tried)
	if idx < 24 {
		res.Sample = map[string]any{"mode": map[bool]string{true: "kill-at-random-time-during-create-storm", false: map[bool]string{true: fmt.Sprintf("strace-SIGKILL-at-%s-number-%d-of-a-thread", sysCall, sysN), false: "die-inside-create-at-action-position"}[sysmode]}[storm], "plans_tried": len(tried), "acked": len(acks), "die_plan": dieAt, "die_pos": diePos}
	}
	if len(res.Viols) > 0 {
		res.Witness = map[string]any{"dir": dir, "tried": len(tried), "acked": len(acks)}
	}
	os.RemoveAll(dir)
	return res
}

func init() {
	register(&Prop{
		ID: "C14", Level: "fault_enumeration", Batch: 24, PerCaseTimeout: 90 * time.Second,
		Rule:  "case i by i mod 4: (0) a request that cannot be encoded planted at EVERY action position of a PRNG plan (check and sequence actions; vault.Create, a third through Submit), (1) duplicate Create with a different second version, (2) PRNG create/delete history, (3) process death inside Create on a file-backed store: a request whose MarshalJSON SIGKILLs the process at a PRNG action position of a PRNG plan, or (every third) SIGKILL at a PRNG time during a 40-plan create storm, or (every third) strace attached to the open store delivering SIGKILL when a thread enters its N-th pwrite64 (WAL frame / commit record) or N-th fsync, checked by a second process; every sixth of these cases instead: cosmosdb, the hook's write gate lets k of the client writes of a Create through and blocks the caller for good, for every k, a second vault over the same storage is the next process; oracle: no trace (Read/Exists/raw rows) or complete and equal; other plans and their raw row counts unchanged; distinct by (vault, mode, trace)",
		Cases: nCases(160, 2400),
		Run:   c14Run,
		RaceAttr: func(rb ev.RaceBlock) bool {
			return rb.HasFunc("sqlite.creator") || rb.HasFunc("sqlite.deleter") || rb.HasFunc("cosmosdb.creator") || rb.HasFunc("cosmosdb.deleter")
		},
		MinNontrivial: 30,
		Finish: func(tier string, counters map[string]int, cov map[string]any) string {
			if counters["kill_cases"] == 0 {
				return "no process-death case completed"
			}
			if counters["syscall_kill_cases"] > 4 && counters["syscall_kill_inside_a_create"] == 0 {
				return "no strace-injected kill landed inside a Create"
			}
			if counters["kill_child_survived"] > counters["kill_cases"]/2 {
				return fmt.Sprintf("%d of %d die-inside-create children survived", counters["kill_child_survived"], counters["kill_cases"])
			}
			return ""
		},
		Assumptions: []string{"crash = process death (SIGKILL); power loss / fsync ordering is out of reach", "process death inside one storage write is sqlite-only (the cosmosdb fake has no crash semantics); on cosmosdb the death between two client writes of a Create is explored with the hook write gate"},
	})
}
