package checks

// C20 — the plan builder yields exactly the plan that direct construction would yield, or reports the first
// misuse as an error that stays until Reset; it never panics and never silently drops or misplaces an object.
//
// A reference interpreter (c20Ref) holds (cursor path, plan under construction built by direct construction
// from private copies of every argument, "has an error", emitted). Every call is applied to the real builder
// (under recover) and to the interpreter, and Err() is read after every call.

import (
	"fmt"
	"math/rand"
	"reflect"
	"strings"
	"time"
	"unsafe"

	"github.com/element-of-surprise/coercion/workflow"
	"github.com/element-of-surprise/coercion/workflow/builder"
	"github.com/google/uuid"

	"verifharness/internal/ev"
	"verifharness/internal/gen"
)

// c20NilOptions: also pass a nil builder.Option to New/Reset ("nil argument" of the statement).
const c20NilOptions = true

// ---------------- calls ----------------

type c20Op struct {
	Call    string // New Reset AddChecks AddBlock AddSequence AddAction Up Plan
	Variant string // how the arguments were chosen (valid, nil, empty-name, ...)

	name, descr string
	optKinds    []string // "group-id" | "nil-group-id" | "nil-option"
	gid         uuid.UUID
	ct          builder.ChecksType
	checks      *workflow.Checks // the object handed to the builder
	checksCopy  *workflow.Checks // private copy taken before the call, used by the reference
	block       builder.BlockArgs
	seq         *workflow.Sequence
	seqCopy     *workflow.Sequence
	action      *workflow.Action
	actionCopy  *workflow.Action
}

func (o c20Op) String() string {
	switch o.Call {
	case "New", "Reset":
		return fmt.Sprintf("%s(%q, %q, options=%v)", o.Call, o.name, o.descr, o.optKinds)
	case "AddChecks":
		d := "nil"
		if o.checks != nil {
			d = c20ActionsStr(o.checks.Actions)
		}
		return fmt.Sprintf("AddChecks(type=%d, checks=%s) [%s]", int(o.ct), d, o.Variant)
	case "AddBlock":
		return fmt.Sprintf("AddBlock(name=%q descr=%q conc=%d tol=%d) [%s]", o.block.Name, o.block.Descr, o.block.Concurrency, o.block.ToleratedFailures, o.Variant)
	case "AddSequence":
		if o.seq == nil {
			return "AddSequence(nil)"
		}
		return fmt.Sprintf("AddSequence(name=%q descr=%q actions=%s) [%s]", o.seq.Name, o.seq.Descr, c20ActionsStr(o.seq.Actions), o.Variant)
	case "AddAction":
		if o.action == nil {
			return "AddAction(nil)"
		}
		return fmt.Sprintf("AddAction(name=%q) [%s]", o.action.Name, o.Variant)
	}
	return o.Call + "()"
}

func c20ActionsStr(as []*workflow.Action) string {
	if as == nil {
		return "{Actions:nil}"
	}
	parts := make([]string, len(as))
	for i, a := range as {
		if a == nil {
			parts[i] = "<nil>"
		} else {
			parts[i] = a.Name
		}
	}
	return "{Actions:[" + strings.Join(parts, ",") + "]}"
}

func c20CopyAction(a *workflow.Action) *workflow.Action {
	if a == nil {
		return nil
	}
	c := *a
	return &c
}

func c20CopyActions(as []*workflow.Action) []*workflow.Action {
	if as == nil {
		return nil
	}
	out := make([]*workflow.Action, len(as))
	for i, a := range as {
		out[i] = c20CopyAction(a)
	}
	return out
}

// ---------------- canonical dump (used for plan comparison and for "nothing changed") ----------------

func c20DumpAction(path string, a *workflow.Action, out []string) []string {
	if a == nil {
		return append(out, path+" <nil>")
	}
	extra := ""
	if a.ID != uuid.Nil || a.Attempts != nil || a.State != nil {
		extra = " +engine-fields"
	}
	return append(out, fmt.Sprintf("%s key=%s name=%q descr=%q plugin=%q timeout=%d retries=%d req=%#v%s", path, a.Key, a.Name, a.Descr, a.Plugin, a.Timeout, a.Retries, a.Req, extra))
}

func c20DumpChecks(path string, c *workflow.Checks, out []string) []string {
	if c == nil {
		return out
	}
	extra := ""
	if c.ID != uuid.Nil || c.State != nil {
		extra = " +engine-fields"
	}
	out = append(out, fmt.Sprintf("%s key=%s delay=%d%s", path, c.Key, c.Delay, extra))
	for i, a := range c.Actions {
		out = c20DumpAction(fmt.Sprintf("%s.action[%d]", path, i), a, out)
	}
	return out
}

func c20DumpSequence(path string, s *workflow.Sequence, out []string) []string {
	if s == nil {
		return append(out, path+" <nil>")
	}
	extra := ""
	if s.ID != uuid.Nil || s.State != nil {
		extra = " +engine-fields"
	}
	out = append(out, fmt.Sprintf("%s key=%s name=%q descr=%q%s", path, s.Key, s.Name, s.Descr, extra))
	for i, a := range s.Actions {
		out = c20DumpAction(fmt.Sprintf("%s.action[%d]", path, i), a, out)
	}
	return out
}

func c20DumpPlan(p *workflow.Plan) []string {
	if p == nil {
		return []string{"<nil plan>"}
	}
	var out []string
	extra := ""
	if p.ID != uuid.Nil || p.Meta != nil || p.State != nil || !p.SubmitTime.IsZero() || p.Reason != 0 {
		extra = " +engine-fields"
	}
	out = append(out, fmt.Sprintf("plan name=%q descr=%q group=%s%s", p.Name, p.Descr, p.GroupID, extra))
	out = c20DumpChecks("plan.BypassChecks", p.BypassChecks, out)
	out = c20DumpChecks("plan.PreChecks", p.PreChecks, out)
	out = c20DumpChecks("plan.ContChecks", p.ContChecks, out)
	out = c20DumpChecks("plan.PostChecks", p.PostChecks, out)
	out = c20DumpChecks("plan.DeferredChecks", p.DeferredChecks, out)
	for i, b := range p.Blocks {
		path := fmt.Sprintf("plan.block[%d]", i)
		if b == nil {
			out = append(out, path+" <nil>")
			continue
		}
		extra := ""
		if b.ID != uuid.Nil || b.State != nil {
			extra = " +engine-fields"
		}
		out = append(out, fmt.Sprintf("%s key=%s name=%q descr=%q entrance=%d exit=%d conc=%d tol=%d%s", path, b.Key, b.Name, b.Descr, b.EntranceDelay, b.ExitDelay, b.Concurrency, b.ToleratedFailures, extra))
		out = c20DumpChecks(path+".BypassChecks", b.BypassChecks, out)
		out = c20DumpChecks(path+".PreChecks", b.PreChecks, out)
		out = c20DumpChecks(path+".ContChecks", b.ContChecks, out)
		out = c20DumpChecks(path+".PostChecks", b.PostChecks, out)
		out = c20DumpChecks(path+".DeferredChecks", b.DeferredChecks, out)
		for j, s := range b.Sequences {
			out = c20DumpSequence(fmt.Sprintf("%s.sequence[%d]", path, j), s, out)
		}
	}
	return out
}

// c20PathClass strips indices, content and which of the five groups it is:
// "plan.block[1].PostChecks.action[2] key=..." -> "block.Checks.action", "plan.PreChecks key=..." -> "plan.Checks".
func c20PathClass(line string) string {
	if i := strings.IndexByte(line, ' '); i >= 0 {
		line = line[:i]
	}
	var b strings.Builder
	skip := false
	for _, r := range line {
		switch {
		case r == '[':
			skip = true
		case r == ']':
			skip = false
		case !skip:
			b.WriteRune(r)
		}
	}
	s := b.String()
	for _, g := range []string{"BypassChecks", "PreChecks", "ContChecks", "PostChecks", "DeferredChecks"} {
		s = strings.Replace(s, g, "Checks", 1)
	}
	if strings.HasPrefix(s, "plan.block") {
		s = strings.TrimPrefix(s, "plan.")
	}
	return s
}

func c20Path(line string) string {
	if i := strings.IndexByte(line, ' '); i >= 0 {
		return line[:i]
	}
	return line
}

// c20Diff returns "" when both dumps agree, otherwise a small class and a readable message.
func c20Diff(got, want []string) (class, msg string) {
	for i := 0; i < len(got) || i < len(want); i++ {
		switch {
		case i >= len(got):
			return "missing=" + c20PathClass(want[i]), fmt.Sprintf("the builder's plan lacks %q (and %d more lines)", want[i], len(want)-i-1)
		case i >= len(want):
			return "extra=" + c20PathClass(got[i]), fmt.Sprintf("the builder's plan has an additional %q", got[i])
		case got[i] != want[i]:
			if c20Path(got[i]) == c20Path(want[i]) {
				return "differs=" + c20PathClass(want[i]), fmt.Sprintf("builder has %q, direct construction has %q", got[i], want[i])
			}
			return "misplaced=" + c20PathClass(want[i]), fmt.Sprintf("at line %d builder has %q, direct construction has %q", i, got[i], want[i])
		}
	}
	return "", ""
}

// ---------------- reference interpreter ----------------

type c20Ref struct {
	exists      bool
	hasErr      bool
	firstErr    string // message of the first error as the real builder reported it
	emitted     bool
	failedReset bool
	plan        *workflow.Plan
	cursor      []any // *workflow.Plan | *workflow.Block | *workflow.Checks | *workflow.Sequence of the reference plan
}

func (m *c20Ref) top() any { return m.cursor[len(m.cursor)-1] }

func (m *c20Ref) state() string {
	switch {
	case !m.exists:
		return "no-builder"
	case m.failedReset:
		return "after-failed-Reset"
	case m.emitted:
		return "after-emit"
	}
	return "building"
}

func (m *c20Ref) level() string {
	if len(m.cursor) == 0 {
		return "-"
	}
	switch m.top().(type) {
	case *workflow.Plan:
		return "plan"
	case *workflow.Block:
		return "block"
	case *workflow.Checks:
		return "checks"
	case *workflow.Sequence:
		return "sequence"
	}
	return "?"
}

func c20Slot(o any, ct builder.ChecksType) **workflow.Checks {
	switch t := o.(type) {
	case *workflow.Plan:
		switch ct {
		case builder.BypassChecks:
			return &t.BypassChecks
		case builder.PreChecks:
			return &t.PreChecks
		case builder.ContChecks:
			return &t.ContChecks
		case builder.PostChecks:
			return &t.PostChecks
		case builder.DeferredChecks:
			return &t.DeferredChecks
		}
	case *workflow.Block:
		switch ct {
		case builder.BypassChecks:
			return &t.BypassChecks
		case builder.PreChecks:
			return &t.PreChecks
		case builder.ContChecks:
			return &t.ContChecks
		case builder.PostChecks:
			return &t.PostChecks
		case builder.DeferredChecks:
			return &t.DeferredChecks
		}
	}
	return nil
}

// c20Outcome of applying a call to the reference.
type c20Outcome struct {
	sticky bool   // the reference already had an error: the call must change nothing
	misuse string // non-empty: this call is the first misuse
}

// argMisuse: misuse visible in the arguments alone.
func (o c20Op) argMisuse() string {
	switch o.Call {
	case "New", "Reset":
		if o.name == "" {
			return "missing-name"
		}
		for _, k := range o.optKinds {
			if k != "group-id" {
				return k
			}
		}
	case "AddChecks":
		if o.checks == nil {
			return "nil-arg"
		}
		for _, a := range o.checks.Actions {
			if a == nil {
				return "nil-action-inside"
			}
		}
		if o.ct < 1 || o.ct > 5 {
			return "unknown-type"
		}
	case "AddBlock":
		if o.block.Name == "" {
			return "missing-name"
		}
	case "AddSequence":
		if o.seq == nil {
			return "nil-arg"
		}
		if o.seq.Name == "" {
			return "missing-name"
		}
	case "AddAction":
		if o.action == nil {
			return "nil-arg"
		}
		if o.action.Name == "" {
			return "missing-name"
		}
	}
	return ""
}

func (m *c20Ref) apply(o c20Op) c20Outcome {
	if o.Call == "New" || o.Call == "Reset" {
		m.exists = true
		m.hasErr, m.firstErr, m.emitted, m.failedReset = false, "", false, false
		m.plan = &workflow.Plan{Name: o.name, Descr: o.descr}
		for _, k := range o.optKinds {
			if k == "group-id" {
				m.plan.GroupID = o.gid
			}
		}
		m.cursor = []any{m.plan}
		if mu := o.argMisuse(); mu != "" {
			m.hasErr, m.failedReset = true, true
			if o.Call == "New" {
				m.exists = false
			}
			return c20Outcome{misuse: mu}
		}
		return c20Outcome{}
	}
	if m.hasErr {
		return c20Outcome{sticky: true}
	}
	fail := func(kind string) c20Outcome {
		m.hasErr = true
		return c20Outcome{misuse: kind}
	}
	if m.emitted {
		return fail("after-emit")
	}
	if mu := o.argMisuse(); mu != "" {
		return fail(mu)
	}
	switch o.Call {
	case "Plan":
		m.emitted = true
	case "Up":
		if len(m.cursor) < 2 {
			return fail("wrong-level")
		}
		m.cursor = m.cursor[:len(m.cursor)-1]
	case "AddChecks":
		slot := c20Slot(m.top(), o.ct)
		if slot == nil {
			return fail("wrong-level")
		}
		if *slot != nil {
			return fail("duplicate")
		}
		*slot = o.checksCopy
		m.cursor = append(m.cursor, o.checksCopy)
	case "AddBlock":
		p, ok := m.top().(*workflow.Plan)
		if !ok {
			return fail("wrong-level")
		}
		a := o.block
		b := &workflow.Block{Key: a.Key, Name: a.Name, Descr: a.Descr, EntranceDelay: a.EntranceDelay, ExitDelay: a.ExitDelay, Concurrency: a.Concurrency, ToleratedFailures: a.ToleratedFailures}
		p.Blocks = append(p.Blocks, b)
		m.cursor = append(m.cursor, b)
	case "AddSequence":
		b, ok := m.top().(*workflow.Block)
		if !ok {
			return fail("wrong-level")
		}
		b.Sequences = append(b.Sequences, o.seqCopy)
		m.cursor = append(m.cursor, o.seqCopy)
	case "AddAction":
		switch t := m.top().(type) {
		case *workflow.Sequence:
			t.Actions = append(t.Actions, o.actionCopy)
		case *workflow.Checks:
			t.Actions = append(t.Actions, o.actionCopy)
		default:
			return fail("wrong-level")
		}
	}
	return c20Outcome{}
}

// ---------------- generator ----------------

type c20Gen struct {
	r       *rand.Rand
	n       int     // object counter for unique names / keys
	pMisuse float64 // probability that a call is drawn from the full pool instead of the valid calls
}

func (g *c20Gen) key() uuid.UUID {
	var u uuid.UUID
	g.r.Read(u[:])
	u[6] = (u[6] & 0x0f) | 0x40
	u[8] = (u[8] & 0x3f) | 0x80
	return u
}

func (g *c20Gen) newAction(emptyName bool) *workflow.Action {
	g.n++
	a := &workflow.Action{Key: g.key(), Name: fmt.Sprintf("action%d", g.n), Descr: fmt.Sprintf("action %d descr", g.n), Plugin: "plugin", Timeout: time.Duration(g.r.Intn(5)) * time.Second, Retries: g.r.Intn(3)}
	if g.r.Intn(2) == 0 {
		a.Req = fmt.Sprintf("req%d", g.n)
	}
	if emptyName {
		a.Name = ""
		if g.r.Intn(2) == 0 {
			a.Descr = ""
		}
	}
	return a
}

func (g *c20Gen) actions() []*workflow.Action {
	switch n := g.r.Intn(5); n {
	case 0:
		return nil
	case 1:
		return []*workflow.Action{}
	default:
		out := make([]*workflow.Action, n-1)
		for i := range out {
			out[i] = g.newAction(false)
		}
		return out
	}
}

func (g *c20Gen) setChecks(o *c20Op, c *workflow.Checks) {
	o.checks = c
	if c != nil {
		cc := *c
		cc.Actions = c20CopyActions(c.Actions)
		o.checksCopy = &cc
	}
}

func (g *c20Gen) setSeq(o *c20Op, s *workflow.Sequence) {
	o.seq = s
	if s != nil {
		sc := *s
		sc.Actions = c20CopyActions(s.Actions)
		o.seqCopy = &sc
	}
}

func (g *c20Gen) setAction(o *c20Op, a *workflow.Action) {
	o.action = a
	o.actionCopy = c20CopyAction(a)
}

var c20Types = []builder.ChecksType{builder.PreChecks, builder.ContChecks, builder.PostChecks, builder.BypassChecks, builder.DeferredChecks}
var c20BadTypes = []builder.ChecksType{builder.CTUnknown, 6, -1, 99}

func (g *c20Gen) validChecks() *workflow.Checks {
	return &workflow.Checks{Key: g.key(), Delay: time.Duration(g.r.Intn(4)) * time.Second, Actions: g.actions()}
}

func (g *c20Gen) validSeq() *workflow.Sequence {
	g.n++
	return &workflow.Sequence{Key: g.key(), Name: fmt.Sprintf("seq%d", g.n), Descr: fmt.Sprintf("seq %d descr", g.n), Actions: g.actions()}
}

func (g *c20Gen) validBlock() builder.BlockArgs {
	g.n++
	return builder.BlockArgs{Key: g.key(), Name: fmt.Sprintf("block%d", g.n), Descr: fmt.Sprintf("block %d descr", g.n),
		EntranceDelay: time.Duration(g.r.Intn(3)) * time.Second, ExitDelay: time.Duration(g.r.Intn(3)) * time.Second, Concurrency: g.r.Intn(4), ToleratedFailures: g.r.Intn(4) - 1}
}

// reset builds a New/Reset call. variant: valid | group-id | missing-name | nil-group-id | nil-option
func (g *c20Gen) reset(call, variant string) c20Op {
	g.n++
	o := c20Op{Call: call, Variant: variant, name: fmt.Sprintf("plan%d", g.n), descr: fmt.Sprintf("plan %d descr", g.n)}
	switch variant {
	case "group-id":
		o.optKinds, o.gid = []string{"group-id"}, g.key()
	case "missing-name":
		o.name = ""
		if g.r.Intn(2) == 0 {
			o.descr = ""
		}
	case "nil-group-id":
		o.optKinds = []string{"nil-group-id"}
	case "nil-option":
		o.optKinds = []string{"nil-option"}
	}
	return o
}

func (o c20Op) options() []builder.Option {
	var out []builder.Option
	for _, k := range o.optKinds {
		switch k {
		case "group-id":
			out = append(out, builder.WithGroupID(o.gid))
		case "nil-group-id":
			out = append(out, builder.WithGroupID(uuid.Nil))
		case "nil-option":
			out = append(out, nil)
		}
	}
	return out
}

func (g *c20Gen) resetVariant(valid bool) string {
	if valid {
		if g.r.Intn(3) == 0 {
			return "group-id"
		}
		return "valid"
	}
	vs := []string{"missing-name", "missing-name", "nil-group-id"}
	if c20NilOptions {
		vs = append(vs, "nil-option")
	}
	return vs[g.r.Intn(len(vs))]
}

// freeTypes lists the check kinds not yet present on the reference object o.
func c20FreeTypes(o any) (free, used []builder.ChecksType) {
	for _, ct := range c20Types {
		if s := c20Slot(o, ct); s != nil {
			if *s == nil {
				free = append(free, ct)
			} else {
				used = append(used, ct)
			}
		}
	}
	return
}

// anyCall draws a call and its arguments from the whole pool (valid and invalid), regardless of the state.
func (g *c20Gen) anyCall(m *c20Ref) c20Op {
	r := g.r
	switch r.Intn(8) {
	case 0, 1:
		o := c20Op{Call: "AddChecks"}
		free, used := c20FreeTypes(m.top())
		switch v := r.Intn(8); {
		case v == 0:
			o.Variant, o.ct = "nil", c20Types[r.Intn(5)]
		case v == 1:
			o.Variant, o.ct = "nil-action-inside", c20Types[r.Intn(5)]
			c := g.validChecks()
			c.Actions = append(c.Actions, nil)
			if r.Intn(2) == 0 {
				c.Actions = append(c.Actions, g.newAction(false))
			}
			g.setChecks(&o, c)
		case v == 2:
			o.Variant, o.ct = "unknown-type", c20BadTypes[r.Intn(len(c20BadTypes))]
			g.setChecks(&o, g.validChecks())
		case v >= 3 && v <= 6 && len(used) > 0:
			o.Variant, o.ct = "duplicate", used[r.Intn(len(used))]
			g.setChecks(&o, g.validChecks())
		case len(free) > 0:
			o.Variant, o.ct = "valid-args", free[r.Intn(len(free))]
			g.setChecks(&o, g.validChecks())
		default:
			o.Variant, o.ct = "valid-args", c20Types[r.Intn(5)]
			g.setChecks(&o, g.validChecks())
		}
		return o
	case 2:
		o := c20Op{Call: "AddBlock", Variant: "valid-args", block: g.validBlock()}
		if r.Intn(3) == 0 {
			o.Variant = "empty-name"
			o.block.Name = ""
			if r.Intn(2) == 0 {
				o.block.Descr = ""
			}
		}
		return o
	case 3:
		o := c20Op{Call: "AddSequence", Variant: "valid-args"}
		switch r.Intn(4) {
		case 0:
			o.Variant = "nil"
		case 1:
			o.Variant = "empty-name"
			s := g.validSeq()
			s.Name = ""
			if r.Intn(2) == 0 {
				s.Descr = ""
			}
			g.setSeq(&o, s)
		default:
			g.setSeq(&o, g.validSeq())
		}
		return o
	case 4:
		o := c20Op{Call: "AddAction", Variant: "valid-args"}
		switch r.Intn(4) {
		case 0:
			o.Variant = "nil"
		case 1:
			o.Variant = "empty-name"
			g.setAction(&o, g.newAction(true))
		default:
			g.setAction(&o, g.newAction(false))
		}
		return o
	case 5:
		return c20Op{Call: "Up"}
	case 6:
		return c20Op{Call: "Plan"}
	default:
		return g.reset("Reset", g.resetVariant(r.Intn(2) == 0))
	}
}

// validCall draws a call that the reference accepts in its current state (building, no error).
func (g *c20Gen) validCall(m *c20Ref) c20Op {
	r := g.r
	type cand struct {
		w    int
		make func() c20Op
	}
	var cs []cand
	addChecks := func(free []builder.ChecksType) func() c20Op {
		return func() c20Op {
			o := c20Op{Call: "AddChecks", Variant: "valid", ct: free[r.Intn(len(free))]}
			g.setChecks(&o, g.validChecks())
			return o
		}
	}
	up := cand{12, func() c20Op { return c20Op{Call: "Up"} }}
	addAction := cand{21, func() c20Op {
		o := c20Op{Call: "AddAction", Variant: "valid"}
		g.setAction(&o, g.newAction(false))
		return o
	}}
	planW := 1
	switch t := m.top().(type) {
	case *workflow.Plan:
		if free, _ := c20FreeTypes(t); len(free) > 0 {
			cs = append(cs, cand{15, addChecks(free)})
		}
		cs = append(cs, cand{27, func() c20Op { return c20Op{Call: "AddBlock", Variant: "valid", block: g.validBlock()} }})
		planW = 2
	case *workflow.Block:
		if free, _ := c20FreeTypes(t); len(free) > 0 {
			cs = append(cs, cand{12, addChecks(free)})
		}
		cs = append(cs, cand{27, func() c20Op {
			o := c20Op{Call: "AddSequence", Variant: "valid"}
			g.setSeq(&o, g.validSeq())
			return o
		}}, up)
	default:
		cs = append(cs, addAction, up)
	}
	cs = append(cs, cand{planW, func() c20Op { return c20Op{Call: "Plan", Variant: "valid"} }},
		cand{1, func() c20Op { return g.reset("Reset", g.resetVariant(true)) }})
	tot := 0
	for _, c := range cs {
		tot += c.w
	}
	x := r.Intn(tot)
	for _, c := range cs {
		if x < c.w {
			return c.make()
		}
		x -= c.w
	}
	return cs[0].make()
}

func (g *c20Gen) next(m *c20Ref) c20Op {
	r := g.r
	switch {
	case !m.exists:
		return g.reset("New", g.resetVariant(r.Float64() >= g.pMisuse))
	case m.hasErr:
		// stickiness: arbitrary further calls, sooner or later a valid Reset
		if r.Intn(4) == 0 {
			return g.reset("Reset", g.resetVariant(true))
		}
		if r.Intn(4) == 0 {
			return c20Op{Call: "Plan"}
		}
		return g.anyCall(m)
	case m.emitted:
		if g.pMisuse == 0 || r.Intn(3) == 0 {
			return g.reset("Reset", g.resetVariant(true))
		}
		return g.anyCall(m)
	case r.Float64() < g.pMisuse:
		return g.anyCall(m)
	}
	return g.validCall(m)
}

// ---------------- observation of the real builder ----------------

// c20Peek reads the partially built plan out of the builder (unexported field chain[0]); nil if the layout
// is not the expected one. Only used for the "a rejected call changes nothing" comparison.
func c20Peek(b *builder.BuildPlan) (p *workflow.Plan) {
	defer func() {
		if recover() != nil {
			p = nil
		}
	}()
	if b == nil {
		return nil
	}
	f := reflect.ValueOf(b).Elem().FieldByName("chain")
	if !f.IsValid() || f.Kind() != reflect.Slice || f.Len() == 0 {
		return nil
	}
	chain, ok := reflect.NewAt(f.Type(), unsafe.Pointer(f.UnsafeAddr())).Elem().Interface().([]any)
	if !ok || len(chain) == 0 {
		return nil
	}
	p, _ = chain[0].(*workflow.Plan)
	return p
}

type c20Passed struct {
	checks []*workflow.Checks
	seqs   []*workflow.Sequence
	acts   []*workflow.Action
}

func (ps *c20Passed) add(o c20Op) {
	if o.checks != nil {
		ps.checks = append(ps.checks, o.checks)
	}
	if o.seq != nil {
		ps.seqs = append(ps.seqs, o.seq)
	}
	if o.action != nil {
		ps.acts = append(ps.acts, o.action)
	}
}

// snapshot of everything a rejected call must leave alone: every object ever handed to the builder and the
// partially built plan.
func (ps *c20Passed) snapshot(b *builder.BuildPlan) []string {
	var out []string
	for i, c := range ps.checks {
		out = c20DumpChecks(fmt.Sprintf("passed-checks[%d]", i), c, out)
	}
	for i, s := range ps.seqs {
		out = c20DumpSequence(fmt.Sprintf("passed-sequence[%d]", i), s, out)
	}
	for i, a := range ps.acts {
		out = c20DumpAction(fmt.Sprintf("passed-action[%d]", i), a, out)
	}
	if p := c20Peek(b); p != nil {
		out = append(out, c20DumpPlan(p)...)
	}
	return out
}

type c20Result struct {
	panicked any
	err      error          // Reset / New / Plan
	plan     *workflow.Plan // Plan
	b        *builder.BuildPlan
}

func c20Exec(b *builder.BuildPlan, o c20Op) (res c20Result) {
	res.b = b
	defer func() {
		if x := recover(); x != nil {
			res.panicked = x
		}
	}()
	switch o.Call {
	case "New":
		res.b, res.err = builder.New(o.name, o.descr, o.options()...)
	case "Reset":
		res.err = b.Reset(o.name, o.descr, o.options()...)
	case "AddChecks":
		b.AddChecks(o.ct, o.checks)
	case "AddBlock":
		b.AddBlock(o.block)
	case "AddSequence":
		b.AddSequence(o.seq)
	case "AddAction":
		b.AddAction(o.action)
	case "Up":
		b.Up()
	case "Plan":
		res.plan, res.err = b.Plan()
	}
	return res
}

func c20Err(b *builder.BuildPlan) (err error, panicked any) {
	defer func() {
		if x := recover(); x != nil {
			panicked = x
		}
	}()
	return b.Err(), nil
}

func c20PanicDisc(m *c20Ref, pre string, o c20Op) string {
	if pre == "after-failed-Reset" && o.Call != "Reset" && o.Call != "New" {
		return "after-failed-Reset"
	}
	switch {
	case o.Call == "AddChecks" && o.checks == nil, o.Call == "AddSequence" && o.seq == nil, o.Call == "AddAction" && o.action == nil:
		return o.Call + "(nil)"
	case o.Call == "New" || o.Call == "Reset":
		for _, k := range o.optKinds {
			if k == "nil-option" {
				return o.Call + "(nil-option)"
			}
		}
	}
	return o.Call
}

func c20ErrStr(e error) string {
	if e == nil {
		return "<nil>"
	}
	return e.Error()
}

// ---------------- one case ----------------

func c20Run(c *Ctx, idx int) CaseResult {
	res := CaseResult{Counters: map[string]int{}}
	r := gen.Rand(c.Seed, "C20", idx)
	g := &c20Gen{r: r}
	profile := "valid-only"
	switch x := r.Intn(10); {
	case x < 3:
	case x < 8:
		profile, g.pMisuse = "some-misuse", 0.08
	default:
		profile, g.pMisuse = "much-misuse", 0.3
	}
	length := 4 + r.Intn(37)

	m := &c20Ref{}
	var b *builder.BuildPlan
	var passed c20Passed
	var trace []string
	var shape strings.Builder
	type emittedPlan struct {
		p    *workflow.Plan
		dump []string
		at   int
	}
	var emitted []emittedPlan
	diverged := false // after the first violation only panics are reported (the two sides may have diverged)
	misuses, successes, afterErrCalls, maxObjects := 0, 0, 0, 0

	viol := func(v ev.Violation) {
		res.Viols = append(res.Viols, v)
		diverged = true
	}
	report := func(rule, disc, format string, args ...any) {
		if diverged {
			return
		}
		viol(ev.V("C20", rule, disc, format, args...))
	}

	step := func(i int, o c20Op) (stop bool) {
		pre := m.state()
		preLevel := m.level()
		passed.add(o)
		// the reference works on private copies, so it can be advanced before the real call
		oc := m.apply(o)
		var before []string
		if !diverged && (oc.sticky || oc.misuse != "") {
			before = passed.snapshot(b)
		}
		out := c20Exec(b, o)
		res.Events++
		res.Counters["call_"+o.Call]++
		line := fmt.Sprintf("%d: [%s @%s] %s", i, pre, preLevel, o)
		fmt.Fprintf(&shape, "%s/%s/%s/%s;", o.Call, o.Variant, pre, preLevel)
		if out.panicked != nil {
			trace = append(trace, line+fmt.Sprintf(" => PANIC %v", out.panicked))
			res.Viols = append(res.Viols, ev.V("C20", "panic", c20PanicDisc(m, pre, o), "call %d %s panicked in state %s at level %s: %v", i, o, pre, preLevel, out.panicked))
			return true
		}
		if o.Call == "New" {
			b = out.b
		}
		var e error
		if b != nil {
			var px any
			e, px = c20Err(b)
			if px != nil {
				trace = append(trace, line+fmt.Sprintf(" => Err() PANIC %v", px))
				res.Viols = append(res.Viols, ev.V("C20", "panic", "Err", "Err() after call %d %s panicked: %v", i, o, px))
				return true
			}
		}
		obs := ""
		switch o.Call {
		case "New", "Reset":
			obs = fmt.Sprintf(" returned err=%s;", c20ErrStr(out.err))
		case "Plan":
			obs = fmt.Sprintf(" returned plan=%v err=%s;", out.plan != nil, c20ErrStr(out.err))
		}
		verdict := "valid"
		switch {
		case oc.sticky:
			verdict = "no-op (error pending)"
		case oc.misuse != "":
			verdict = "misuse:" + oc.misuse
		}
		trace = append(trace, fmt.Sprintf("%s =>%s Err()=%s   (reference: %s)", line, obs, c20ErrStr(e), verdict))
		if diverged {
			return false
		}
		disc := o.Call + "," + oc.misuse

		switch {
		case o.Call == "New":
			switch {
			case oc.misuse != "" && (out.err == nil || out.b != nil):
				report("misuse-accepted", disc, "call %d %s is a misuse (%s) but New returned builder=%v err=%s", i, o, oc.misuse, out.b != nil, c20ErrStr(out.err))
			case oc.misuse == "" && (out.err != nil || out.b == nil):
				report("valid-rejected", o.Call, "call %d %s has valid arguments but New returned builder=%v err=%s", i, o, out.b != nil, c20ErrStr(out.err))
			case oc.misuse == "" && e != nil:
				report("valid-rejected", o.Call, "a fresh builder from call %d %s has Err()=%s", i, o, c20ErrStr(e))
			}
			if oc.misuse != "" {
				misuses++
				res.Counters["misuse_"+oc.misuse+"_"+o.Call]++
				b = nil
			}
			return false

		case oc.sticky:
			afterErrCalls++
			st := pre
			switch {
			case e == nil:
				report("sticky", st+",cleared", "call %d %s: the first error %q was pending (state %s) but Err() is nil after the call", i, o, m.firstErr, st)
			case e.Error() != m.firstErr:
				report("sticky", st+",changed", "call %d %s: the first error was %q (state %s) but Err() is now %q", i, o, m.firstErr, st, e.Error())
			}
			if o.Call == "Plan" {
				switch {
				case out.plan != nil:
					report("plan-in-error", st+",plan-returned", "call %d Plan(): the first error %q is pending but a plan was returned (err=%s)", i, m.firstErr, c20ErrStr(out.err))
				case out.err == nil:
					report("plan-in-error", st+",no-error", "call %d Plan(): the first error %q is pending but Plan() returned (nil, nil)", i, m.firstErr)
				case out.err.Error() != m.firstErr:
					report("plan-in-error", st+",other-error", "call %d Plan(): the first error was %q but Plan() returned %q", i, m.firstErr, out.err.Error())
				}
			}
			if cl, msg := c20Diff(passed.snapshot(b), before); cl != "" {
				report("changed-after-error", o.Call, "call %d %s was made while the error %q was pending, yet it changed something: %s", i, o, m.firstErr, msg)
			}
			return false

		case oc.misuse != "":
			misuses++
			res.Counters["misuse_"+oc.misuse+"_"+o.Call]++
			direct := o.Call == "Reset" || o.Call == "Plan"
			switch {
			case direct && out.err == nil:
				report("misuse-accepted", disc, "call %d %s is a misuse (%s, state %s, level %s) but it returned no error", i, o, oc.misuse, pre, preLevel)
			case o.Call == "Plan" && out.plan != nil:
				report("misuse-accepted", disc, "call %d Plan() is a misuse (%s) but it returned a plan", i, oc.misuse)
			case !direct && e == nil:
				report("misuse-accepted", disc, "call %d %s is a misuse (%s, state %s, level %s) but Err() is nil after it", i, o, oc.misuse, pre, preLevel)
			case direct && e == nil:
				report("err-not-recorded", disc, "call %d %s is a misuse (%s) and returned %q, but Err() is nil after it: later calls and Plan() will not keep returning this first error", i, o, oc.misuse, out.err.Error())
			case direct && e.Error() != out.err.Error():
				report("err-not-recorded", disc, "call %d %s is a misuse (%s) and returned %q, but Err() is %q", i, o, oc.misuse, out.err.Error(), e.Error())
			}
			if e != nil {
				m.firstErr = e.Error()
			} else if out.err != nil {
				m.firstErr = out.err.Error()
			}
			if o.Call != "Reset" {
				if cl, msg := c20Diff(passed.snapshot(b), before); cl != "" {
					report("misuse-mutated", disc, "call %d %s is a misuse (%s) yet it changed something: %s", i, o, oc.misuse, msg)
				}
			}
			return false
		}

		// valid call
		switch o.Call {
		case "Reset":
			if out.err != nil {
				report("valid-rejected", o.Call, "call %d %s has valid arguments but returned %q", i, o, out.err.Error())
			} else if e != nil {
				report("valid-rejected", o.Call, "call %d %s succeeded but Err() is %q afterwards", i, o, e.Error())
			}
		case "Plan":
			switch {
			case out.err != nil || out.plan == nil:
				report("valid-rejected", o.Call, "call %d Plan(): no misuse happened since the last Reset but Plan() returned plan=%v err=%s", i, out.plan != nil, c20ErrStr(out.err))
			default:
				successes++
				want := c20DumpPlan(m.plan)
				got := c20DumpPlan(out.plan)
				if len(want) > maxObjects {
					maxObjects = len(want)
				}
				res.Counters["plans_compared"]++
				res.Counters["plan_objects_compared"] += len(want)
				if cl, msg := c20Diff(got, want); cl != "" {
					report("plan-mismatch", cl, "call %d Plan() succeeded but the plan differs from direct construction of the same hierarchy: %s", i, msg)
					res.Witness = map[string]any{"builder_plan": got, "direct_construction": want}
				}
				emitted = append(emitted, emittedPlan{out.plan, got, i})
				if e != nil {
					report("valid-rejected", o.Call, "call %d Plan() succeeded but Err() is %q afterwards", i, e.Error())
				}
			}
		default:
			if e != nil {
				report("valid-rejected", o.Call, "call %d %s is valid (state %s, level %s) but Err() is %q after it", i, o, pre, preLevel, e.Error())
			}
		}
		return false
	}

	stopped := false
	i := 0
	for ; i < length && !stopped; i++ {
		stopped = step(i, g.next(m))
	}
	// every history ends with Plan() twice; in the misuse profiles also another call and a third Plan()
	if !stopped && m.exists {
		tail := []c20Op{{Call: "Plan"}, {Call: "Plan"}}
		if g.pMisuse > 0 && r.Intn(2) == 0 {
			tail = append(tail, g.anyCall(m), c20Op{Call: "Plan"})
		}
		for _, o := range tail {
			if stopped = step(i, o); stopped {
				break
			}
			i++
		}
	}
	// emitted plans must not be touched by what happened after their emission (Reset starts a new plan)
	if !diverged {
		for _, ep := range emitted {
			res.Events++
			if cl, msg := c20Diff(c20DumpPlan(ep.p), ep.dump); cl != "" {
				report("emitted-plan-changed", cl, "the plan emitted by call %d was modified by later builder calls: %s", ep.at, msg)
			}
		}
	}

	res.Counters["profile_"+profile]++
	res.Counters["misuses"] = misuses
	res.Counters["successful_plans"] = successes
	res.Counters["calls_while_error_pending"] = afterErrCalls
	if successes > 0 {
		res.Counters["cases_with_successful_plan"] = 1
	}
	if misuses > 0 {
		res.Counters["cases_with_misuse"] = 1
	}
	if (successes > 0 && maxObjects >= 4) || (misuses > 0 && afterErrCalls > 0) {
		res.Nontriv = hashStr(shape.String())
	}
	res.ISig = hashStr(shape.String())
	if idx < 3 {
		res.Sample = map[string]any{"profile": profile, "calls": trace}
	}
	if len(res.Viols) > 0 {
		w := map[string]any{"profile": profile, "calls": trace}
		if wm, ok := res.Witness.(map[string]any); ok {
			for k, v := range wm {
				w[k] = v
			}
		}
		res.Witness = w
	}
	return res
}

func init() {
	register(&Prop{
		ID: "C20", Level: "exploration", Batch: 1000, PerCaseTimeout: 10 * time.Second,
		Rule: "case i = PRNG(seed,i): a history of 4-40 calls New/Reset/AddChecks/AddBlock/AddSequence/AddAction/Up/Plan followed by Plan(), Plan() (and in half of the misuse histories one more call and a third Plan()). " +
			"Profiles: 30% only calls that are valid in the reference's current state, 50% / 20% with 8% / 30% of the calls drawn from the whole pool regardless of state " +
			"(nil checks/sequence/action, nil action inside a Checks, empty name, ChecksType in {0,6,-1,99}, a group kind that already exists, wrong level, Up at the root, anything after Plan(), " +
			"Reset/New with empty name, nil group id or nil option); while an error is pending arbitrary further calls, Plan() and eventually a valid Reset. " +
			"Every argument object carries a unique key/name; the reference builds its plan by direct construction from private copies. Err() is read after every call. " +
			"non-trivial: a Plan() succeeded on a hierarchy of >= 4 objects, or a misuse was followed by at least one further call; distinct by the list of (call, argument variant, state, level)",
		Cases:           nCases(5000, 200000),
		Run:             c20Run,
		DiedIsViolation: true,
		MinNontrivial:   30,
		Finish: func(tier string, counters map[string]int, cov map[string]any) string {
			if counters["plans_compared"] == 0 {
				return "no successful Plan() was compared"
			}
			if counters["calls_while_error_pending"] == 0 {
				return "no call was made while an error was pending"
			}
			return ""
		},
		Assumptions: []string{
			"errors are compared by message (a later error with the same text as the first one is not told apart)",
			"not generated because the statement is silent: whitespace-only names, a valid name with an empty description, an action with a name but no plugin, nil or unnamed actions inside a Sequence argument, the same object handed in twice",
			"nil and empty Actions/Sequences/Blocks slices are treated as equal when comparing plans",
			"after the first violation of a history only panics are still reported (the builder and the reference may have diverged)",
			"the partially built plan of a rejected call is read through the unexported field BuildPlan.chain (skipped if the field is not there)",
		},
	})
}
