package checks

import (
	"fmt"
	"sort"
	"sync"
	"sync/atomic"
	"time"

	"github.com/anishathalye/porcupine"
	"github.com/element-of-surprise/coercion/workflow"
	"github.com/element-of-surprise/coercion/workflow/context"

	"verifharness/internal/ev"
	"verifharness/internal/gen"
	"verifharness/internal/store"
)

// Concurrent variant of C13 (DESIGN §C13): writers (one per object, as in the engine) issue Update* with unique
// values while readers call Read; every operation is recorded {client, call, return} at the harness boundary with
// one monotonic clock; each Read is split into one read operation per object; the history is checked with
// porcupine against a register model, partitioned by object id.

type linIn struct {
	Obj   string
	Write bool
	Val   int64 // unique version written (write) — encoded in State.Start nanoseconds
}

func linModel() porcupine.Model {
	return porcupine.Model{
		Partition: func(history []porcupine.Operation) [][]porcupine.Operation {
			m := map[string][]porcupine.Operation{}
			var keys []string
			for _, op := range history {
				k := op.Input.(linIn).Obj
				if _, ok := m[k]; !ok {
					keys = append(keys, k)
				}
				m[k] = append(m[k], op)
			}
			out := make([][]porcupine.Operation, 0, len(keys))
			for _, k := range keys {
				out = append(out, m[k])
			}
			return out
		},
		Init: func() interface{} { return int64(0) },
		Step: func(state, input, output interface{}) (bool, interface{}) {
			in := input.(linIn)
			if in.Write {
				return true, in.Val
			}
			return output.(int64) == state.(int64), state
		},
		Equal: func(a, b interface{}) bool { return a.(int64) == b.(int64) },
		DescribeOperation: func(input, output interface{}) string {
			in := input.(linIn)
			if in.Write {
				return fmt.Sprintf("write(%s, %d)", in.Obj, in.Val)
			}
			return fmt.Sprintf("read(%s) -> %d", in.Obj, output.(int64))
		},
	}
}

func liveID(ob liveObj) string {
	switch ob.kind {
	case "plan":
		return ob.plan.ID.String()
	case "block":
		return ob.block.ID.String()
	case "checks":
		return ob.checks.ID.String()
	case "seq":
		return ob.seq.ID.String()
	}
	return ob.action.ID.String()
}

func versionOf(s *workflow.State) int64 {
	if s == nil || s.Start.IsZero() {
		return 0
	}
	return s.Start.UnixNano() - linBase
}

const linBase = int64(1700000000) * 1e9

func c13Lin(c *Ctx, idx int) CaseResult {
	ctx := context.Background()
	r := gen.Rand(c.Seed, "C13lin", idx)
	res := CaseResult{Counters: map[string]int{}}
	kind := []string{"sqlite-mem", "cosmos-fake", "sqlite-file"}[(idx/15)%3]
	h, err := openVault(ctx, kind, c.Scratch, idx)
	if err != nil {
		res.Verdict, res.Note = "inconclusive", "open vault: "+err.Error()
		return res
	}
	p := store.RandPlan(r, store.GenOpts{MaxBlocks: 2, MaxSeqs: 2, MaxActions: 2})
	if err := h.Vault.Create(ctx, p); err != nil {
		res.Verdict, res.Note = "inconclusive", "create: "+err.Error()
		return res
	}
	lp, err := h.Vault.Read(ctx, p.ID)
	if err != nil {
		res.Verdict, res.Note = "inconclusive", "read: "+err.Error()
		return res
	}
	objs := liveObjects(lp)
	// which objects get a writer: a PRNG choice over the whole plan, in half of the cases objects of one kind first
	// (the vaults lock and address per kind: two sequences, two actions of one sequence, two check groups ...)
	r.Shuffle(len(objs), func(a, b int) { objs[a], objs[b] = objs[b], objs[a] })
	if r.Intn(2) == 0 {
		first := []string{"seq", "action", "checks", "block"}[r.Intn(4)]
		sort.SliceStable(objs, func(a, b int) bool { return objs[a].kind == first && objs[b].kind != first })
	}
	// initial version 0: states have zero start
	start := time.Now()
	clock := func() int64 { return int64(time.Since(start)) }
	var mu sync.Mutex
	var ops []porcupine.Operation
	var next atomic.Int64
	nWriters := min(len(objs), 3+r.Intn(4))
	nReaders := 1 + r.Intn(3)
	opsPerWriter := 8 + r.Intn(10)
	var wg sync.WaitGroup
	var opErr atomic.Value
	written := map[string]bool{}
	for _, ob := range objs[:nWriters] {
		written[liveID(ob)] = true
	}
	for w := 0; w < nWriters; w++ {
		cp, err := h.Vault.Read(ctx, p.ID)
		if err != nil {
			res.Verdict, res.Note = "inconclusive", "read: "+err.Error()
			return res
		}
		var mine liveObj
		for _, o := range liveObjects(cp) {
			if liveID(o) == liveID(objs[w]) {
				mine = o
			}
		}
		wg.Add(1)
		go func(w int) {
			defer wg.Done()
			ob := mine // one writer per object, each on its own copy of the plan (nothing shared between writers)
			for k := 0; k < opsPerWriter; k++ {
				v := next.Add(1)
				st := &workflow.State{Status: workflow.Running, Start: time.Unix(0, linBase+v).UTC()}
				var id string
				call := clock()
				var err error
				switch ob.kind {
				case "plan":
					ob.plan.State = mergeState(ob.plan.State, st)
					id = ob.plan.ID.String()
					err = h.Vault.UpdatePlan(ctx, ob.plan)
				case "block":
					ob.block.State = mergeState(ob.block.State, st)
					id = ob.block.ID.String()
					err = h.Vault.UpdateBlock(ctx, ob.block)
				case "checks":
					ob.checks.State = mergeState(ob.checks.State, st)
					id = ob.checks.ID.String()
					err = h.Vault.UpdateChecks(ctx, ob.checks)
				case "seq":
					ob.seq.State = mergeState(ob.seq.State, st)
					id = ob.seq.ID.String()
					err = h.Vault.UpdateSequence(ctx, ob.seq)
				case "action":
					ob.action.State = mergeState(ob.action.State, st)
					id = ob.action.ID.String()
					err = h.Vault.UpdateAction(ctx, ob.action)
				}
				ret := clock()
				if err != nil {
					opErr.Store(err)
					return
				}
				mu.Lock()
				ops = append(ops, porcupine.Operation{ClientId: w, Input: linIn{Obj: id, Write: true, Val: v}, Call: call, Output: int64(0), Return: ret})
				mu.Unlock()
			}
		}(w)
	}
	stop := make(chan struct{})
	var rwg sync.WaitGroup
	for rd := 0; rd < nReaders; rd++ {
		rwg.Add(1)
		go func(rd int) {
			defer rwg.Done()
			for {
				select {
				case <-stop:
					return
				default:
				}
				call := clock()
				got, err := h.Vault.Read(ctx, p.ID)
				ret := clock()
				if err != nil || got == nil {
					opErr.Store(fmt.Errorf("read: %v", err))
					return
				}
				mu.Lock()
				for _, ob := range liveObjects(got) {
					if !written[liveID(ob)] {
						continue
					}
					var id string
					var st *workflow.State
					switch ob.kind {
					case "plan":
						id, st = ob.plan.ID.String(), ob.plan.State
					case "block":
						id, st = ob.block.ID.String(), ob.block.State
					case "checks":
						id, st = ob.checks.ID.String(), ob.checks.State
					case "seq":
						id, st = ob.seq.ID.String(), ob.seq.State
					case "action":
						id, st = ob.action.ID.String(), ob.action.State
					}
					ops = append(ops, porcupine.Operation{ClientId: nWriters + rd, Input: linIn{Obj: id}, Call: call, Output: versionOf(st), Return: ret})
				}
				mu.Unlock()
				time.Sleep(time.Duration(200+rd*300) * time.Microsecond)
			}
		}(rd)
	}
	wg.Wait()
	close(stop)
	rwg.Wait()
	if e := opErr.Load(); e != nil {
		res.Viols = append(res.Viols, ev.V("C13", kind+"/concurrent/op-error", "", "an operation failed under concurrent Update*/Read: %v", e))
		return res
	}
	res.Events = len(ops)
	res.Counters["lin_histories"]++
	res.Counters["lin_operations"] += len(ops)
	result, info := porcupine.CheckOperationsVerbose(linModel(), ops, 2*time.Minute)
	switch result {
	case porcupine.Ok:
	case porcupine.Unknown:
		res.Verdict, res.Note = "inconclusive", "porcupine timed out"
	case porcupine.Illegal:
		_ = info
		res.Viols = append(res.Viols, ev.V("C13", kind+"/concurrent/not-linearizable", "", "a history of %d concurrent Update*/Read operations on %d objects is not linearizable against a per-object register (a Read returned a state that was not the latest written)", len(ops), nWriters))
		var lines []string
		for _, op := range ops {
			lines = append(lines, fmt.Sprintf("c%d [%d,%d] %s", op.ClientId, op.Call, op.Return, linModel().DescribeOperation(op.Input, op.Output)))
		}
		res.Witness = map[string]any{"vault": kind, "history": lines}
	}
	if kind == "sqlite-file" {
		h.Vault.Close(ctx)
	}
	res.Nontriv = hashStr(fmt.Sprint("lin", kind, nWriters, nReaders, opsPerWriter, len(ops)))
	res.ISig = res.Nontriv
	if idx%60 == 29 {
		res.Sample = map[string]any{"mode": "concurrent history checked with porcupine", "vault": kind, "writers": nWriters, "readers": nReaders, "operations": len(ops), "result": fmt.Sprint(result)}
	}
	return res
}
