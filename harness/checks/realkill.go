package checks

import (
	"encoding/json"
	"fmt"
	"os"
	"os/exec"
	"path/filepath"
	"syscall"
	"time"

	"github.com/element-of-surprise/coercion"
	"github.com/element-of-surprise/coercion/workflow/context"
	"github.com/element-of-surprise/coercion/workflow/storage/sqlite"
	"github.com/google/uuid"

	"verifharness/internal/crash"
	"verifharness/internal/eng"
	"verifharness/internal/ev"
	"verifharness/internal/gen"
	"verifharness/internal/oracle"
	"verifharness/internal/plug"
	"verifharness/internal/rec"
	"verifharness/internal/spec"
)

// Real-kill cross-validation of the crash model (DESIGN §C09): a process running a plan on a FILE-backed store
// SIGKILLs itself immediately before or after its k-th storage write; a second process opens the same directory,
// snapshots the durable state, recovers and reports. Same oracles as the prefix-replay explorer.

type killJob struct {
	Dir    string    `json:"dir"`
	Plan   spec.Plan `json:"plan"`
	KillAt int       `json:"kill_at"`
	Before bool      `json:"before"`
	ID     string    `json:"id"`
}

type killReport struct {
	Snapshot *spec.PlanView `json:"snapshot"`
	Final    *spec.PlanView `json:"final"`
	Returned bool           `json:"returned"`
	Events   []plug.Event   `json:"events"`
	Err      string         `json:"err,omitempty"`
}

func readJob() (*killJob, error) {
	b, err := os.ReadFile(os.Getenv("VERIF_KILL_JOB"))
	if err != nil {
		return nil, err
	}
	var j killJob
	return &j, json.Unmarshal(b, &j)
}

// killRunChild: runs the plan and dies at the k-th write.
func killRunChild() int {
	ctx := context.Background()
	j, err := readJob()
	if err != nil {
		return 3
	}
	l := plug.NewLog()
	reg := plug.Registry(l)
	v, err := sqlite.New(ctx, j.Dir, reg)
	if err != nil {
		fmt.Fprintln(os.Stderr, "open:", err)
		return 3
	}
	rv := rec.New(v, l, 1, 0)
	ws, err := coercion.New(ctx, reg, rv)
	if err != nil {
		return 3
	}
	id, err := ws.Submit(ctx, j.Plan.Build())
	if err != nil {
		fmt.Fprintln(os.Stderr, "submit:", err)
		return 3
	}
	os.WriteFile(filepath.Join(j.Dir, "plan.id"), []byte(id.String()), 0o644)
	rv.KillBefore = j.Before
	rv.KillAt = rv.Writes() + j.KillAt
	if err := ws.Start(ctx, id); err != nil {
		return 3
	}
	eng.WaitPlan(ws, id, 20*time.Second)
	// the plan finished before the k-th write: report "survived"
	os.WriteFile(filepath.Join(j.Dir, "survived"), []byte("1"), 0o644)
	return 0
}

// killRecoverChild: opens the directory after the crash, snapshots, recovers.
func killRecoverChild() int {
	ctx := context.Background()
	j, err := readJob()
	if err != nil {
		return 3
	}
	rep := killReport{}
	defer func() {
		b, _ := json.Marshal(rep)
		os.WriteFile(filepath.Join(j.Dir, "report.json"), b, 0o644)
	}()
	idb, err := os.ReadFile(filepath.Join(j.Dir, "plan.id"))
	if err != nil {
		rep.Err = "no plan id: " + err.Error()
		return 0
	}
	id, err := uuid.Parse(string(idb))
	if err != nil {
		rep.Err = err.Error()
		return 0
	}
	l := plug.NewLog()
	reg := plug.Registry(l)
	v, err := sqlite.New(ctx, j.Dir, reg)
	if err != nil {
		rep.Err = "reopen: " + err.Error()
		return 0
	}
	p, err := v.Read(ctx, id)
	if err != nil {
		rep.Err = "read: " + err.Error()
		return 0
	}
	rep.Snapshot = spec.View(p)
	ws, err := coercion.New(ctx, reg, v)
	if err != nil {
		rep.Err = "new: " + err.Error()
		return 0
	}
	fp, _, ok := eng.WaitPlan(ws, id, 15*time.Second)
	rep.Returned = ok
	if ok && fp != nil {
		rep.Final = spec.View(fp)
		eng.Quiesce(l, 10*time.Millisecond, 5*time.Second)
	}
	rep.Events = l.Snapshot()
	nilID := uuid.Nil.String()
	for i := range rep.Events {
		if rep.Events[i].PlanID == nilID && (rep.Events[i].Kind == "begin" || rep.Events[i].Kind == "end") {
			rep.Events[i].PlanID = id.String()
		}
	}
	return 0
}

func runSelf(mode, job string, timeout time.Duration, logf string) (err error, timedOut bool) {
	self, _ := os.Executable()
	cmd := exec.Command(self, "-test.run", "^$")
	cmd.Env = append(os.Environ(), "VERIF_CHILD="+mode, "VERIF_KILL_JOB="+job, "GORACE=halt_on_error=0 exitcode=0 log_path="+logf+".race")
	f, _ := os.Create(logf)
	defer f.Close()
	cmd.Stdout, cmd.Stderr = f, f
	if err := cmd.Start(); err != nil {
		return err, false
	}
	done := make(chan error, 1)
	go func() { done <- cmd.Wait() }()
	select {
	case err := <-done:
		return err, false
	case <-time.After(timeout):
		syscall.Kill(cmd.Process.Pid, syscall.SIGKILL)
		<-done
		return nil, true
	}
}

// realKillCase runs one real-kill case and applies the C09 or C10 oracle.
func realKillCase(prop string, c *Ctx, idx int) CaseResult {
	res := CaseResult{Counters: map[string]int{}}
	r := gen.Rand(c.Seed, "realkill", idx)
	ps := crashRandPlan(r)
	// size k from an uninterrupted captured run (also the reference outcome)
	cp, err := crash.RunCaptured(&ps, 20*time.Second)
	if err != nil {
		res.Verdict, res.Note = "inconclusive", "uninterrupted run: "+err.Error()
		return res
	}
	dir := filepath.Join(c.Scratch, fmt.Sprintf("realkill-%d", idx))
	os.MkdirAll(dir, 0o755)
	defer os.RemoveAll(dir)
	job := killJob{Dir: dir, Plan: ps, KillAt: 1 + r.Intn(max(1, cp.NW)), Before: r.Intn(2) == 0}
	jb, _ := json.Marshal(job)
	jobFile := filepath.Join(dir, "job.json")
	os.WriteFile(jobFile, jb, 0o644)
	if _, to := runSelf("killrun", jobFile, 60*time.Second, filepath.Join(dir, "run.log")); to {
		res.Verdict, res.Note = "inconclusive", "kill-run child did not end"
		return res
	}
	if _, err := os.Stat(filepath.Join(dir, "survived")); err == nil {
		res.Counters["realkill_survived"]++
		res.Verdict, res.Note = "held", "plan finished before the chosen write"
		res.Nontriv = ""
		return res
	}
	if _, to := runSelf("killrecover", jobFile, 90*time.Second, filepath.Join(dir, "recover.log")); to {
		res.Viols = append(res.Viols, ev.V(prop, "realkill/recover-process-hang", "", "the recovering process did not end within 90 s"))
		return res
	}
	b, err := os.ReadFile(filepath.Join(dir, "report.json"))
	if err != nil {
		lg, _ := os.ReadFile(filepath.Join(dir, "recover.log"))
		if prop == "C10" {
			res.Viols = append(res.Viols, ev.V(prop, "realkill/recover-process-died", classifyDeath(string(lg)), "the recovering process died: %s", tail(string(lg), 1500)))
		} else {
			res.Verdict, res.Note = "inconclusive", "no report from the recovering process"
		}
		return res
	}
	var rep killReport
	if err := json.Unmarshal(b, &rep); err != nil || rep.Snapshot == nil {
		res.Verdict, res.Note = "inconclusive", "bad report: "+rep.Err
		return res
	}
	res.Counters["realkill_cases"]++
	res.Counters["realkill_sk_"+stName(rep.Snapshot.Status("P"))]++
	res.Events = len(rep.Events)
	if rep.Snapshot.Status("P") != spec.Running {
		res.Nontriv = ""
		return res
	}
	t := oracle.Project(rep.Events, rep.Snapshot.ID, -1)
	switch prop {
	case "C09":
		res.Viols = append(res.Viols, c09Oracle(&ps, rep.Snapshot, t)...)
	case "C10":
		compare := !hasFailingCont(&ps) && expectedFailed(&ps) == (cp.Ref.Status("P") == spec.Failed)
		rc := &crash.Recovery{Returned: rep.Returned, Final: rep.Final, Events: rep.Events}
		res.Viols = append(res.Viols, c10Oracle(&ps, cp, rep.Snapshot, rc, t, compare)...)
	}
	for i := range res.Viols {
		res.Viols[i].Msg = "[real kill on a file-backed store] " + res.Viols[i].Msg
	}
	res.Nontriv = hashStr(fmt.Sprint("realkill", ps, job.KillAt, job.Before))
	res.ISig = res.Nontriv
	if len(res.Viols) > 0 {
		res.Witness = map[string]any{"plan": ps, "kill_at": job.KillAt, "before": job.Before, "report": rep}
	}
	if idx%50 == 0 {
		res.Sample = map[string]any{"mode": "real SIGKILL at the k-th write on a file-backed store, second process recovers", "kill_at": job.KillAt, "before_write": job.Before, "writes": cp.NW, "durable_plan_status": stName(rep.Snapshot.Status("P"))}
	}
	return res
}
