// Package gen: PRNG-driven plan generators. Case i of seed s is a pure function of (s, property, i).
package gen

import (
	"fmt"
	"hash/fnv"
	"math/rand"

	"verifharness/internal/plug"
	"verifharness/internal/spec"
)

// Rand returns the PRNG of case idx.
func Rand(seed int, prop string, idx int) *rand.Rand {
	h := fnv.New64a()
	fmt.Fprintf(h, "%d/%s/%d", seed, prop, idx)
	return rand.New(rand.NewSource(int64(h.Sum64())))
}

// Params steer the random plan generator.
type Params struct {
	MaxBlocks, MaxSeqs, MaxActions int
	MinSeqs                        int
	// probabilities of each group being present (plan level / block level)
	PBypass, PPre, PCont, PPost, PDeferred      float64
	PBBypass, PBPre, PBCont, PBPost, PBDeferred float64
	// failure probabilities per action
	PFailSeqAction float64
	PFailBypass    float64 // bypass "failure" means the scope runs
	PFailPre       float64
	PFailPost      float64
	PFailDeferred  float64
	// continuous checks: probability that the group has a failing run, and at which run (1..MaxContFailRun)
	PFailCont      float64
	MaxContFailRun int
	ContDelayUS    [2]int // min,max of Checks.Delay
	ContSleepUS    [2]int // latency of a cont-check invocation
	// latencies
	SleepUS     [2]int
	TailP       float64
	TailSleepUS [2]int
	// concurrency / tolerance choices (picked uniformly); Conc value -99 means "number of sequences + 2",
	// -98 means "number of sequences"
	Concs []int
	Tols  []int
	// retries
	MaxRetries  int
	PTransient  float64 // probability that an action gets transient failures before its final outcome
	PPointer    float64
	ChecksMaxAc int
	// AvoidPreContFail: never generate a scope with a failing pre-check and continuous checks (hang
	// finding F-07a) — only set while that finding is open.
	NoBlockDelays bool
}

func between(r *rand.Rand, mm [2]int) int {
	if mm[1] <= mm[0] {
		return mm[0]
	}
	return mm[0] + r.Intn(mm[1]-mm[0]+1)
}

func (g *Params) sleep(r *rand.Rand) int {
	if g.TailP > 0 && r.Float64() < g.TailP {
		return between(r, g.TailSleepUS)
	}
	return between(r, g.SleepUS)
}

// action builds an action whose final outcome is ok or permanent failure, optionally preceded by
// transient failures within its retry budget.
func (g *Params) action(r *rand.Rand, fail bool) spec.Action {
	a := spec.Action{Pointer: r.Float64() < g.PPointer}
	final := plug.OK
	if fail {
		final = plug.Permanent
	}
	if g.MaxRetries > 0 && r.Float64() < g.PTransient {
		a.Retries = 1 + r.Intn(g.MaxRetries)
		nt := 1 + r.Intn(a.Retries)
		for i := 0; i < nt; i++ {
			a.Steps = append(a.Steps, plug.Step{Out: plug.Transient, SleepUS: g.sleep(r)})
		}
		if fail && r.Intn(2) == 0 {
			// fail by exhausting the budget with transient errors
			for len(a.Steps) < a.Retries+1 {
				a.Steps = append(a.Steps, plug.Step{Out: plug.Transient, SleepUS: g.sleep(r)})
			}
			return a
		}
	}
	a.Steps = append(a.Steps, plug.Step{Out: final, SleepUS: g.sleep(r)})
	return a
}

func (g *Params) checks(r *rand.Rand, pfail float64) *spec.Checks {
	n := 1 + r.Intn(max(1, g.ChecksMaxAc))
	c := &spec.Checks{DelayUS: between(r, g.ContDelayUS)}
	failIdx := -1
	if r.Float64() < pfail {
		failIdx = r.Intn(n)
	}
	for i := 0; i < n; i++ {
		c.Actions = append(c.Actions, g.action(r, i == failIdx))
	}
	return c
}

func (g *Params) cont(r *rand.Rand) *spec.Checks {
	n := 1 + r.Intn(max(1, g.ChecksMaxAc))
	c := &spec.Checks{DelayUS: between(r, g.ContDelayUS)}
	failIdx := -1
	if r.Float64() < g.PFailCont {
		failIdx = r.Intn(n)
	}
	for i := 0; i < n; i++ {
		a := spec.Action{Pointer: r.Float64() < g.PPointer}
		if i == failIdx {
			k := 1 + r.Intn(max(1, g.MaxContFailRun))
			for j := 1; j < k; j++ {
				a.Steps = append(a.Steps, plug.Step{Out: plug.OK, SleepUS: between(r, g.ContSleepUS)})
			}
			a.Steps = append(a.Steps, plug.Step{Out: plug.Permanent, SleepUS: between(r, g.ContSleepUS)})
		} else {
			a.Steps = []plug.Step{{Out: plug.OK, SleepUS: between(r, g.ContSleepUS)}}
		}
		c.Actions = append(c.Actions, a)
	}
	return c
}

func pick(r *rand.Rand, xs []int, def int) int {
	if len(xs) == 0 {
		return def
	}
	return xs[r.Intn(len(xs))]
}

// Plan generates a random plan.
func (g *Params) Plan(r *rand.Rand, name string) spec.Plan {
	p := spec.Plan{Name: name}
	if r.Float64() < g.PBypass {
		p.Bypass = g.checks(r, g.PFailBypass)
	}
	if r.Float64() < g.PPre {
		p.Pre = g.checks(r, g.PFailPre)
	}
	if r.Float64() < g.PCont {
		p.Cont = g.cont(r)
	}
	if r.Float64() < g.PPost {
		p.Post = g.checks(r, g.PFailPost)
	}
	if r.Float64() < g.PDeferred {
		p.Deferred = g.checks(r, g.PFailDeferred)
	}
	nb := 1 + r.Intn(max(1, g.MaxBlocks))
	for b := 0; b < nb; b++ {
		var blk spec.Block
		if r.Float64() < g.PBBypass {
			blk.Bypass = g.checks(r, g.PFailBypass)
		}
		if r.Float64() < g.PBPre {
			blk.Pre = g.checks(r, g.PFailPre)
		}
		if r.Float64() < g.PBCont {
			blk.Cont = g.cont(r)
		}
		if r.Float64() < g.PBPost {
			blk.Post = g.checks(r, g.PFailPost)
		}
		if r.Float64() < g.PBDeferred {
			blk.Deferred = g.checks(r, g.PFailDeferred)
		}
		minS := max(1, g.MinSeqs)
		ns := minS
		if g.MaxSeqs > minS {
			ns += r.Intn(g.MaxSeqs - minS + 1)
		}
		for s := 0; s < ns; s++ {
			var sq spec.Seq
			na := 1 + r.Intn(max(1, g.MaxActions))
			failAt := -1
			if r.Float64() < g.PFailSeqAction {
				failAt = r.Intn(na)
			}
			for a := 0; a < na; a++ {
				sq.Actions = append(sq.Actions, g.action(r, a == failAt))
			}
			blk.Seqs = append(blk.Seqs, sq)
		}
		blk.Conc = pick(r, g.Concs, 1)
		switch blk.Conc {
		case -99:
			blk.Conc = ns + 2
		case -98:
			blk.Conc = ns
		case -97:
			blk.Conc = max(1, ns-1)
		}
		blk.Tol = pick(r, g.Tols, 0)
		if blk.Tol == -99 {
			blk.Tol = ns
		}
		if !g.NoBlockDelays && r.Intn(6) == 0 {
			blk.EntryUS = r.Intn(2000)
		}
		if !g.NoBlockDelays && r.Intn(6) == 0 {
			blk.ExitUS = r.Intn(2000)
		}
		p.Blocks = append(p.Blocks, blk)
	}
	p.AssignTags()
	return p
}

// Base returns the common "order" profile parameters.
func Base() Params {
	return Params{
		MaxBlocks: 3, MaxSeqs: 4, MaxActions: 3,
		PBypass: 0.12, PPre: 0.4, PCont: 0.3, PPost: 0.4, PDeferred: 0.4,
		PBBypass: 0.12, PBPre: 0.35, PBCont: 0.3, PBPost: 0.35, PBDeferred: 0.35,
		PFailSeqAction: 0.15, PFailBypass: 0.6, PFailPre: 0.1, PFailPost: 0.12, PFailDeferred: 0.12,
		PFailCont: 0.1, MaxContFailRun: 4,
		ContDelayUS: [2]int{300, 3000}, ContSleepUS: [2]int{0, 1500},
		SleepUS: [2]int{0, 3000}, TailP: 0.1, TailSleepUS: [2]int{15000, 40000},
		Concs: []int{0, 1, 2, 3, -99}, Tols: []int{-1, 0, 0, 1, 2},
		MaxRetries: 2, PTransient: 0.15, PPointer: 0.3, ChecksMaxAc: 2,
	}
}

// ScriptOutcome evaluates, from the scripts alone, whether an action finally succeeds (first run).
func ScriptOutcome(a spec.Action) bool {
	if len(a.Steps) == 0 {
		return true
	}
	for i := 0; i <= a.Retries; i++ {
		var st plug.Step
		if i < len(a.Steps) {
			st = a.Steps[i]
		} else {
			st = a.Steps[len(a.Steps)-1]
		}
		switch st.Out {
		case plug.OK:
			return true
		case plug.Permanent, plug.WrongType, plug.WrongTypeErr, plug.WrongPtr:
			return false
		}
	}
	return false
}
