// Package ev: violations, signatures, known findings, evidence and replay files, race-log parsing.
package ev

import (
	"bufio"
	"encoding/json"
	"fmt"
	"os"
	"path/filepath"
	"regexp"
	"sort"
	"strings"
)

// Root of the verification tree.
var Root = func() string {
	if r := os.Getenv("VERIF_ROOT"); r != "" {
		return r
	}
	return "/verif"
}()

// Violation is one oracle report.
type Violation struct {
	Prop string `json:"prop"`
	// Sig is "<ID>/<rule>/<discriminator>": computed from the violated rule and minimal features of the
	// witness, never from the random input.
	Sig string `json:"sig"`
	Msg string `json:"msg"`
}

func V(prop, rule, disc, format string, args ...any) Violation {
	sig := prop + "/" + rule
	if disc != "" {
		sig += "/" + disc
	}
	return Violation{Prop: prop, Sig: sig, Msg: fmt.Sprintf(format, args...)}
}

// Known is one line of known_findings.jsonl.
type Known struct {
	Property  string `json:"property"`
	Signature string `json:"signature"`
	Status    string `json:"status"` // known | fixed
	Commit    string `json:"commit,omitempty"`
	Avoid     string `json:"avoid,omitempty"`
	What      string `json:"what"`
}

// LoadKnown reads the committed known-findings file (never written at run time).
func LoadKnown() ([]Known, error) {
	f, err := os.Open(filepath.Join(Root, "known_findings.jsonl"))
	if err != nil {
		if os.IsNotExist(err) {
			return nil, nil
		}
		return nil, err
	}
	defer f.Close()
	var out []Known
	sc := bufio.NewScanner(f)
	sc.Buffer(make([]byte, 1<<20), 1<<20)
	for sc.Scan() {
		line := strings.TrimSpace(sc.Text())
		if line == "" || strings.HasPrefix(line, "#") {
			continue
		}
		var k Known
		if err := json.Unmarshal([]byte(line), &k); err != nil {
			return nil, fmt.Errorf("known_findings.jsonl: %w: %s", err, line)
		}
		out = append(out, k)
	}
	return out, sc.Err()
}

// IsKnown reports whether sig is listed as a known (not fixed) finding of prop.
func IsKnown(known []Known, prop, sig string) (Known, bool) {
	for _, k := range known {
		if k.Status == "known" && k.Property == prop && k.Signature == sig {
			return k, true
		}
	}
	return Known{}, false
}

// Evidence is the evidence file.
type Evidence struct {
	PropertyID  string         `json:"property_id"`
	Tier        string         `json:"tier"`
	Seed        int            `json:"seed"`
	Level       string         `json:"level"`
	Coverage    map[string]any `json:"coverage"`
	Assumptions []string       `json:"assumptions,omitempty"`
	WallS       float64        `json:"wall_s"`
	Violations  int            `json:"violations"`
}

func WriteEvidence(e *Evidence) error {
	dir := filepath.Join(Root, "evidence")
	if err := os.MkdirAll(dir, 0o755); err != nil {
		return err
	}
	b, err := json.MarshalIndent(e, "", " ")
	if err != nil {
		return err
	}
	tmp := filepath.Join(dir, fmt.Sprintf(".%s.%d.tmp", e.PropertyID, os.Getpid()))
	if err := os.WriteFile(tmp, b, 0o644); err != nil {
		return err
	}
	return os.Rename(tmp, filepath.Join(dir, e.PropertyID+".json"))
}

// WriteReplay writes a replay file and returns its path.
func WriteReplay(prop string, name string, content any) (string, error) {
	dir := filepath.Join(Root, "replays", prop)
	if err := os.MkdirAll(dir, 0o755); err != nil {
		return "", err
	}
	b, err := json.MarshalIndent(content, "", " ")
	if err != nil {
		return "", err
	}
	p := filepath.Join(dir, name+".json")
	return p, os.WriteFile(p, b, 0o644)
}

// ---- race logs ----

// RaceBlock is one "WARNING: DATA RACE" report.
type RaceBlock struct {
	Text   string
	Stacks [][]string // function names per stack, innermost first
}

var frameRE = regexp.MustCompile(`^  ([^\s].*)\(\)$`)
var frameRE2 = regexp.MustCompile(`^  ([^\s(]+(?:\([^)]*\))?[^\s(]*)\(`)

const coercionPkg = "github.com/element-of-surprise/coercion"

// ParseRaceLog splits a race log into blocks.
func ParseRaceLog(text string) []RaceBlock {
	var blocks []RaceBlock
	parts := strings.Split(text, "WARNING: DATA RACE")
	for _, p := range parts[1:] {
		end := strings.Index(p, "==================")
		if end >= 0 {
			p = p[:end]
		}
		rb := RaceBlock{Text: "WARNING: DATA RACE" + p}
		var cur []string
		inStack := false
		for _, line := range strings.Split(p, "\n") {
			switch {
			case strings.HasPrefix(line, "Read at") || strings.HasPrefix(line, "Write at") ||
				strings.HasPrefix(line, "Previous read at") || strings.HasPrefix(line, "Previous write at"):
				if inStack && cur != nil {
					rb.Stacks = append(rb.Stacks, cur)
				}
				cur = []string{}
				inStack = true
			case strings.HasPrefix(line, "Goroutine "):
				if inStack && cur != nil {
					rb.Stacks = append(rb.Stacks, cur)
				}
				cur = nil
				inStack = false
			case inStack && strings.HasPrefix(line, "  ") && !strings.HasPrefix(line, "      "):
				fn := strings.TrimSpace(line)
				if i := strings.LastIndex(fn, "("); i > 0 {
					fn = fn[:i]
				}
				cur = append(cur, fn)
			}
		}
		if inStack && cur != nil {
			rb.Stacks = append(rb.Stacks, cur)
		}
		blocks = append(blocks, rb)
	}
	return blocks
}

// InCoercion reports whether both access stacks contain a frame inside the coercion module.
func (rb RaceBlock) InCoercion() bool {
	if len(rb.Stacks) < 2 {
		return false
	}
	for _, st := range rb.Stacks[:2] {
		found := false
		for _, fn := range st {
			if strings.HasPrefix(fn, coercionPkg) {
				found = true
				break
			}
		}
		if !found {
			return false
		}
	}
	return true
}

// InHook reports whether one of the two racing accesses is made by a function of our own build-tagged hooks
// (verif_hooks.go): such a race is the harness's, not the code's.
func (rb RaceBlock) InHook() bool {
	for i, st := range rb.Stacks {
		if i >= 2 || len(st) == 0 {
			continue
		}
		if strings.Contains(st[0], ".NewVerifVault") || strings.Contains(st[0], ".(*VerifVault).") || strings.Contains(st[0], ".(*verifClient).") {
			return true
		}
	}
	return false
}

// InnerCoercionFuncs returns, per access stack, the innermost coercion function (shortened).
func (rb RaceBlock) InnerCoercionFuncs() []string {
	var out []string
	for _, st := range rb.Stacks {
		f := "?"
		for _, fn := range st {
			if strings.HasPrefix(fn, coercionPkg) {
				f = strings.TrimPrefix(fn, coercionPkg+"/")
				break
			}
		}
		out = append(out, f)
	}
	return out
}

// HasFunc reports whether any of the two access stacks mentions a function containing sub.
func (rb RaceBlock) HasFunc(sub string) bool {
	for _, st := range rb.Stacks {
		for _, fn := range st {
			if strings.Contains(fn, sub) {
				return true
			}
		}
	}
	return false
}

// Key de-duplicates blocks by the sorted pair of innermost coercion functions.
func (rb RaceBlock) Key() string {
	f := rb.InnerCoercionFuncs()
	if len(f) > 2 {
		f = f[:2]
	}
	sort.Strings(f)
	return strings.Join(f, " <-> ")
}

// ReadRaceLogs reads every file matching prefix* and returns the parsed blocks.
func ReadRaceLogs(prefix string) (files int, blocks []RaceBlock) {
	matches, _ := filepath.Glob(prefix + "*")
	for _, m := range matches {
		b, err := os.ReadFile(m)
		if err != nil {
			continue
		}
		files++
		blocks = append(blocks, ParseRaceLog(string(b))...)
	}
	return
}
