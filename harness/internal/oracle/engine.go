package oracle

import (
	"fmt"
	"strings"

	"verifharness/internal/ev"
	"verifharness/internal/plug"
	"verifharness/internal/spec"
)

func kindName(k string) string { return k }

// ---------- C01 declared order ----------

// C01 checks block order, in-sequence order, pre-check gating, post-check and deferred-check placement.
// Profile assumption: no "overrun" steps (an abandoned, timed-out call may legitimately end late).
func C01(ps *spec.Plan, t *Trace) []ev.Violation {
	var out []ev.Violation
	add := func(rule, disc, f string, a ...any) { out = append(out, ev.V("C01", rule, disc, f, a...)) }

	// (a) blocks one at a time in declared order: at a begin in block j every invocation of a block i<j has ended.
	maxEndBefore := map[int]int{} // block -> max end seq (or MaxInt if open)
	const open = int(^uint(0) >> 1)
	for _, inv := range t.Invs {
		if inv.Addr.Block < 0 {
			continue
		}
		e := inv.End
		if e < 0 {
			e = open
		}
		if e > maxEndBefore[inv.Addr.Block] {
			maxEndBefore[inv.Addr.Block] = e
		}
	}
	reported := map[string]bool{}
	for _, inv := range t.Invs {
		j := inv.Addr.Block
		if j < 0 {
			continue
		}
		for i := 0; i < j; i++ {
			if me, ok := maxEndBefore[i]; ok && me > inv.Begin {
				k := fmt.Sprintf("%d>%d", i, j)
				if !reported[k] {
					reported[k] = true
					add("block-overlap", "", "action %s of block %d began (seq %d) before block %d had finished (an invocation of it ends at seq %d)", inv.Tag, j, inv.Begin, i, me)
				}
			}
		}
	}
	// plan-level pre/bypass before any block; plan post/deferred after all blocks' non-cont work
	// (b) sequence order and gating on success
	for bi, b := range ps.Blocks {
		for si, s := range b.Seqs {
			prevEnd := -1
			for ai, a := range s.Actions {
				invs := t.Of(a.Tag)
				// no overlapping invocations of one action
				for k := 1; k < len(invs); k++ {
					if invs[k-1].End < 0 || invs[k-1].End > invs[k].Begin {
						add("action-overlap", "", "invocation %d of %s began before invocation %d ended", invs[k].N, a.Tag, invs[k-1].N)
					}
				}
				if len(invs) == 0 {
					continue
				}
				if ai > 0 {
					prev := s.Actions[ai-1]
					last, ok := lastBefore(t, prev.Tag, invs[0].Begin)
					switch {
					case !ok:
						add("seq-order", "prev-not-run", "%s began although %s (previous action of B%d.S%d) never ran before it", a.Tag, prev.Tag, bi, si)
					case last.End < 0 || last.End > invs[0].Begin:
						add("seq-order", "prev-not-finished", "%s began (seq %d) before %s finished", a.Tag, invs[0].Begin, prev.Tag)
					case last.Out != plug.OK:
						add("seq-order", "prev-failed", "%s began although the last invocation of %s ended with %q", a.Tag, prev.Tag, last.Out)
					}
					// nothing of prev after this began
					for _, pi := range t.Of(prev.Tag) {
						if pi.Begin > invs[0].Begin {
							add("seq-order", "prev-after-next", "%s invoked again after %s began", prev.Tag, a.Tag)
						}
					}
				}
				_ = prevEnd
			}
		}
	}
	// (c) pre-check gating
	for bi, b := range ps.Blocks {
		first := firstSeqBegin(t, bi)
		if first < 0 {
			continue
		}
		for _, grp := range []struct {
			c    *spec.Checks
			name string
		}{{ps.Pre, "P.pre"}, {b.Pre, fmt.Sprintf("B%d.pre", bi)}} {
			for _, tag := range tagsOfChecks(grp.c) {
				last, ok := lastBefore(t, tag, first)
				if !ok || last.End < 0 || last.End > first || last.Out != plug.OK {
					add("pre-gate", strings.SplitN(grp.name, ".", 2)[0][:1], "a sequence action of block %d began (seq %d) before pre-check %s had passed", bi, first, tag)
					break
				}
			}
		}
	}
	// (d)(e) post and deferred placement per scope
	scopePlacement := func(scope string, post, deferred, pre *spec.Checks, seqInv func(Inv) bool) {
		seqs := t.Filter(seqInv)
		lastSeqEnd, firstSeqBeginAfter := -1, -1
		_ = firstSeqBeginAfter
		for _, s := range seqs {
			e := s.End
			if e < 0 {
				e = open
			}
			if e > lastSeqEnd {
				lastSeqEnd = e
			}
		}
		postBegin := firstBeginOf(t, tagsOfChecks(post))
		if postBegin >= 0 {
			if lastSeqEnd > postBegin {
				add("post-early", scope[:1], "post-checks of %s began (seq %d) before every started sequence action had finished (one ends at %d)", scope, postBegin, lastSeqEnd)
			}
			for _, s := range seqs {
				if s.Begin > postBegin {
					add("post-early", scope[:1]+",seq-after-post", "sequence action %s began after the post-checks of %s", s.Tag, scope)
					break
				}
			}
		}
		defBegin := firstBeginOf(t, tagsOfChecks(deferred))
		if defBegin >= 0 {
			if lastSeqEnd > defBegin {
				add("deferred-early", scope[:1]+",seq", "deferred checks of %s began (seq %d) while a sequence action was still executing (ends at %d)", scope, defBegin, lastSeqEnd)
			}
			for _, s := range seqs {
				if s.Begin > defBegin {
					add("deferred-early", scope[:1]+",seq-after", "sequence action %s began after the deferred checks of %s", s.Tag, scope)
					break
				}
			}
			for _, c := range []*spec.Checks{pre, post} {
				for _, tag := range tagsOfChecks(c) {
					for _, inv := range t.Of(tag) {
						e := inv.End
						if e < 0 {
							e = open
						}
						if e > defBegin {
							add("deferred-early", scope[:1]+",checks", "deferred checks of %s began (seq %d) before check %s had finished", scope, defBegin, tag)
						}
					}
				}
			}
		}
	}
	scopePlacement("P", ps.Post, ps.Deferred, ps.Pre, func(i Inv) bool { return i.Addr.Kind == "seq" })
	for bi := range ps.Blocks {
		b := &ps.Blocks[bi]
		bi := bi
		scopePlacement(fmt.Sprintf("B%d", bi), b.Post, b.Deferred, b.Pre, func(i Inv) bool { return i.Addr.Kind == "seq" && i.Addr.Block == bi })
	}
	// plan-level pre/bypass groups finish before any block action begins; plan post/deferred begin after all block work
	firstBlock := -1
	lastBlockEnd := -1
	for _, inv := range t.Invs {
		if inv.Addr.Block >= 0 {
			if firstBlock < 0 || inv.Begin < firstBlock {
				firstBlock = inv.Begin
			}
			e := inv.End
			if e < 0 {
				e = open
			}
			if e > lastBlockEnd {
				lastBlockEnd = e
			}
		}
	}
	if firstBlock >= 0 {
		for _, tag := range tagsOfChecks(ps.Pre) {
			for _, inv := range t.Of(tag) {
				if inv.End < 0 || inv.End > firstBlock {
					add("plan-pre-late", "", "block work began (seq %d) before plan pre-check %s finished", firstBlock, tag)
				}
			}
		}
		for _, c := range []*spec.Checks{ps.Post, ps.Deferred} {
			if b := firstBeginOf(t, tagsOfChecks(c)); b >= 0 && b < lastBlockEnd {
				add("plan-post-early", "", "plan post/deferred checks began (seq %d) before all block work had finished (%d)", b, lastBlockEnd)
			}
		}
	}
	return out
}

func firstSeqBegin(t *Trace, block int) int {
	for _, inv := range t.Invs {
		if inv.Addr.Kind == "seq" && inv.Addr.Block == block {
			return inv.Begin
		}
	}
	return -1
}

func firstBeginOf(t *Trace, tags []string) int {
	first := -1
	for _, tag := range tags {
		if idx := t.ByTag[tag]; len(idx) > 0 {
			b := t.Invs[idx[0]].Begin
			if first < 0 || b < first {
				first = b
			}
		}
	}
	return first
}

// lastBefore returns the last invocation of tag that began before seq.
func lastBefore(t *Trace, tag string, seq int) (Inv, bool) {
	var res Inv
	ok := false
	for _, i := range t.ByTag[tag] {
		if t.Invs[i].Begin < seq {
			res = t.Invs[i]
			ok = true
		}
	}
	return res, ok
}

// ---------- C02 concurrency bound ----------

// C02Result carries the violations plus the maximum concurrency seen per block.
type C02Result struct {
	Viols      []ev.Violation
	MaxPerBlk  map[int]int
	ReachedCap int // number of blocks that reached their Concurrency
	Blocks     int // number of blocks that ran sequences
}

func C02(ps *spec.Plan, events []plug.Event, planID string) C02Result {
	res := C02Result{MaxPerBlk: map[int]int{}}
	// in-flight invocation count per (block, seq)
	infl := map[[2]int]int{}
	reported := map[string]bool{}
	for _, e := range events {
		if e.PlanID != planID || (e.Kind != "begin" && e.Kind != "end") {
			continue
		}
		a, ok := spec.ParseTag(e.Tag)
		if !ok || a.Kind != "seq" {
			continue
		}
		k := [2]int{a.Block, a.Seq}
		if e.Kind == "end" {
			infl[k]--
			if infl[k] <= 0 {
				delete(infl, k)
			}
			continue
		}
		infl[k]++
		n := 0
		for kk := range infl {
			if kk[0] == a.Block {
				n++
			} else if !reported["x"] {
				reported["x"] = true
				res.Viols = append(res.Viols, ev.V("C02", "two-blocks", "", "sequence action %s of block %d began (seq %d) while sequence %d of block %d was in flight", e.Tag, a.Block, e.Seq, kk[1], kk[0]))
			}
		}
		if n > res.MaxPerBlk[a.Block] {
			res.MaxPerBlk[a.Block] = n
		}
		if a.Block < len(ps.Blocks) {
			c := ps.Blocks[a.Block].EffConc()
			if n > c {
				key := fmt.Sprintf("b%d", a.Block)
				if !reported[key] {
					reported[key] = true
					res.Viols = append(res.Viols, ev.V("C02", "bound", "", "at seq %d (begin %s) %d sequences of block %d are in flight, Concurrency is %d", e.Seq, e.Tag, n, a.Block, c))
				}
			}
		}
	}
	for b, m := range res.MaxPerBlk {
		res.Blocks++
		if b < len(ps.Blocks) && m >= min(ps.Blocks[b].EffConc(), len(ps.Blocks[b].Seqs)) {
			res.ReachedCap++
		}
	}
	return res
}

// ---------- C03 tolerated failures ----------

func seqAddr(b, s int) string { return fmt.Sprintf("B%d.S%d", b, s) }

// seqStarted reports whether any action of the sequence has a begin.
func seqStarted(t *Trace, s *spec.Seq) bool {
	for _, a := range s.Actions {
		if t.Began(a.Tag) {
			return true
		}
	}
	return false
}

// C03 checks the tolerated-failure rules. Profile assumption: no plan-level continuous check.
func C03(ps *spec.Plan, t *Trace, final *spec.PlanView) []ev.Violation {
	var out []ev.Violation
	add := func(rule, disc, f string, a ...any) { out = append(out, ev.V("C03", rule, disc, f, a...)) }
	if final == nil {
		return nil
	}
	planBypassed := ps.Bypass != nil && final.Status("P.bypass") == spec.Completed
	firstFailed := -1
	hasCont := ps.Cont != nil
	for bi := range ps.Blocks {
		b := &ps.Blocks[bi]
		ba := fmt.Sprintf("B%d", bi)
		bst := final.Status(ba)
		F := 0
		started := make([]bool, len(b.Seqs))
		failed := make([]bool, len(b.Seqs))
		for si := range b.Seqs {
			started[si] = seqStarted(t, &b.Seqs[si])
			st := final.Status(seqAddr(bi, si))
			failed[si] = st == spec.Failed
			if failed[si] {
				F++
			}
			// rule 5: ties sequence status to what ran
			if started[si] {
				lastRun := -1
				for ai := range b.Seqs[si].Actions {
					if t.Began(b.Seqs[si].Actions[ai].Tag) {
						lastRun = ai
					}
				}
				li, _ := t.Last(b.Seqs[si].Actions[lastRun].Tag)
				if li.End >= 0 {
					lastOK := li.Out == plug.OK
					switch {
					case !lastOK && st != spec.Failed && exhausted(t, b.Seqs[si].Actions[lastRun]):
						add("seq-status", "failed-run-not-failed", "sequence %s: last invocation of %s ended %q but the sequence is %s", seqAddr(bi, si), li.Tag, li.Out, StName(st))
					case lastOK && lastRun == len(b.Seqs[si].Actions)-1 && st != spec.Completed:
						add("seq-status", "ok-run-not-completed", "sequence %s: every action succeeded but the sequence is %s", seqAddr(bi, si), StName(st))
					}
				}
			} else if st == spec.Failed || st == spec.Completed {
				add("seq-status", "not-run-terminal", "sequence %s never ran but is %s", seqAddr(bi, si), StName(st))
			}
		}
		T, C := b.Tol, b.EffConc()
		// rule 1
		if T >= 0 && F > T+C {
			add("too-many-failures", "", "block %d: %d sequences failed, ToleratedFailures=%d Concurrency=%d allow at most %d", bi, F, T, C, T+C)
		}
		// rule 2 (Concurrency 1)
		if C == 1 && T >= 0 {
			// started must be a prefix
			seenGap := false
			lastStarted := -1
			for si := range b.Seqs {
				if started[si] {
					if seenGap {
						add("stop-exactly", "not-prefix", "block %d (Concurrency 1): sequence %d ran although an earlier one did not", bi, si)
					}
					lastStarted = si
				} else {
					seenGap = true
				}
			}
			if F > T+1 {
				add("stop-exactly", "ran-past", "block %d (Concurrency 1, ToleratedFailures %d): %d sequences failed, execution must stop at failure %d", bi, T, F, T+1)
			}
			if F == T+1 && lastStarted >= 0 && !failed[lastStarted] {
				add("stop-exactly", "ran-past", "block %d (Concurrency 1): sequence %d ran after the failure that exceeded the tolerance", bi, lastStarted)
			}
			blockChecksOK := !groupAnyFailed(final, ba)
			if F <= T && lastStarted >= 0 && lastStarted != len(b.Seqs)-1 && blockChecksOK && !hasCont && b.Cont == nil {
				add("stop-exactly", "stopped-early", "block %d (Concurrency 1): only %d of %d sequences ran although failures (%d) never exceeded the tolerance (%d)", bi, lastStarted+1, len(b.Seqs), F, T)
			}
		}
		// rule 3: block status
		if planBypassed {
			continue
		}
		entered := bst != spec.NotStarted
		if firstFailed >= 0 {
			// rule 4
			for _, inv := range t.Invs {
				if inv.Addr.Block == bi {
					add("after-failed-block", "", "block %d failed, yet %s of block %d was invoked", firstFailed, inv.Tag, bi)
					break
				}
			}
			if entered {
				add("after-failed-block", "status", "block %d failed, yet block %d is %s", firstFailed, bi, StName(bst))
			}
			continue
		}
		if !entered {
			continue
		}
		bypassed := b.Bypass != nil && final.Status(ba+".bypass") == spec.Completed
		if bypassed {
			if bst != spec.Completed {
				add("block-status", "bypassed", "block %d was bypassed but is %s", bi, StName(bst))
			}
			continue
		}
		shouldFail := (T >= 0 && F > T) || groupAnyFailed(final, ba)
		if hasCont && final.Status("P.cont") == spec.Failed {
			// a plan-level continuous check failure legitimately fails the running block
			if bst == spec.Failed {
				firstFailed = bi
			}
			continue
		}
		switch {
		case shouldFail && bst != spec.Failed:
			add("block-status", "should-fail", "block %d: %d failed sequences (tolerance %d), failed groups=%v, but block is %s", bi, F, T, groupAnyFailed(final, ba), StName(bst))
		case !shouldFail && bst != spec.Completed:
			add("block-status", "should-complete", "block %d: %d failed sequences within tolerance %d and no failed check, but block is %s", bi, F, T, StName(bst))
		}
		if bst == spec.Failed {
			firstFailed = bi
		}
	}
	if firstFailed >= 0 && final.Status("P") != spec.Failed {
		add("plan-status", "", "block %d is Failed but the plan is %s", firstFailed, StName(final.Status("P")))
	}
	return out
}

// exhausted: the action's last run used its whole budget or ended with a non-retryable outcome.
func exhausted(t *Trace, a spec.Action) bool {
	invs := t.Of(a.Tag)
	if len(invs) == 0 {
		return false
	}
	last := invs[len(invs)-1]
	if last.Out == plug.Permanent || last.Out == plug.WrongType || last.Out == plug.WrongTypeErr || last.Out == plug.WrongPtr {
		return true
	}
	return len(invs) >= a.Retries+1
}

func groupAnyFailed(v *spec.PlanView, scope string) bool {
	for _, k := range []string{"pre", "cont", "post", "deferred"} {
		if v.Status(scope+"."+k) == spec.Failed {
			return true
		}
	}
	return false
}

func StName(s int) string {
	switch s {
	case spec.NotStarted:
		return "NotStarted"
	case spec.Running:
		return "Running"
	case spec.Completed:
		return "Completed"
	case spec.Failed:
		return "Failed"
	case spec.Stopped:
		return "Stopped"
	case -1:
		return "<absent>"
	}
	return fmt.Sprintf("Status(%d)", s)
}

// ---------- C04 terminal, quiescent, consistent, truthful ----------

var reasonName = map[int]string{0: "Unknown", 100: "PreCheck", 200: "Block", 300: "PostCheck", 400: "ContCheck", 450: "DeferredCheck", 500: "Stopped", 600: "ExceedRecovery"}

// Consistency applies the status-agreement rules to a final plan (shared by C04 and C10).
// withTokens ties the last attempt to the plugin's last invocation (only valid within one process).
func Consistency(prop string, ps *spec.Plan, t *Trace, p *spec.PlanView, withTokens bool) []ev.Violation {
	var out []ev.Violation
	add := func(rule, disc, f string, a ...any) { out = append(out, ev.V(prop, rule, disc, f, a...)) }
	pst := p.Status("P")
	if pst != spec.Completed && pst != spec.Failed {
		add("not-terminal", StName(pst), "plan status at Wait is %s", StName(pst))
	}
	for _, o := range p.Objs {
		if o.Status == spec.Running {
			add("left-running", o.Kind, "%s %s is still Running in the final plan", o.Kind, o.Addr)
		}
		if o.End != 0 && o.Start > o.End {
			add("start-after-end", o.Kind, "%s %s: start %d > end %d", o.Kind, o.Addr, o.Start, o.End)
		}
		if strings.Contains(o.Addr, "!") {
			add("misplaced", "", "action at position %s carries the request of another action", o.Addr)
		}
	}
	bypassed := ps.Bypass != nil && p.Status("P.bypass") == spec.Completed
	if pst == spec.Completed && !bypassed {
		for bi := range ps.Blocks {
			if st := p.Status(fmt.Sprintf("B%d", bi)); st != spec.Completed {
				add("completed-plan", "block-"+StName(st), "plan Completed but block %d is %s", bi, StName(st))
			}
		}
		for _, k := range []string{"pre", "cont", "post", "deferred"} {
			if p.Status("P."+k) == spec.Failed {
				add("completed-plan", "failed-"+k, "plan Completed but its %s checks are Failed", k)
			}
		}
	}
	for bi := range ps.Blocks {
		b := &ps.Blocks[bi]
		for si := range b.Seqs {
			s := &b.Seqs[si]
			sst := p.Status(seqAddr(bi, si))
			switch sst {
			case spec.Completed:
				for _, a := range s.Actions {
					if st := p.Status(a.Tag); st != spec.Completed {
						add("completed-seq", StName(st), "sequence %s Completed but action %s is %s", seqAddr(bi, si), a.Tag, StName(st))
					}
				}
			case spec.Failed:
				nf := 0
				failedAt := -1
				for ai, a := range s.Actions {
					if p.Status(a.Tag) == spec.Failed {
						nf++
						failedAt = ai
					}
				}
				if nf != 1 {
					add("failed-seq", fmt.Sprintf("failed-actions=%d", min(nf, 2)), "sequence %s Failed with %d Failed actions", seqAddr(bi, si), nf)
				} else {
					for ai := 0; ai < failedAt; ai++ {
						if st := p.Status(s.Actions[ai].Tag); st != spec.Completed {
							add("failed-seq", "before-"+StName(st), "sequence %s: action %s before the failed one is %s", seqAddr(bi, si), s.Actions[ai].Tag, StName(st))
						}
					}
					for ai := failedAt + 1; ai < len(s.Actions); ai++ {
						o := p.Get(s.Actions[ai].Tag)
						if o == nil {
							continue
						}
						if o.Status != spec.NotStarted || len(o.Attempts) != 0 || (t != nil && t.Began(s.Actions[ai].Tag)) {
							add("failed-seq", "after-touched", "sequence %s: action %s after the failed one is %s with %d attempts (invoked: %v)", seqAddr(bi, si), o.Addr, StName(o.Status), len(o.Attempts), t != nil && t.Began(s.Actions[ai].Tag))
						}
					}
				}
			}
		}
	}
	for _, o := range p.Objs {
		if o.Kind != "action" {
			continue
		}
		n := len(o.Attempts)
		switch o.Status {
		case spec.Completed:
			if n == 0 || o.Attempts[n-1].HasErr {
				add("action-status", "completed-with-error", "action %s Completed but its final attempt has an error or is missing (%d attempts)", o.Addr, n)
			}
		case spec.Failed:
			if n == 0 || !o.Attempts[n-1].HasErr {
				add("action-status", "failed-without-error", "action %s Failed but its final attempt has no error (%d attempts)", o.Addr, n)
			}
		case spec.NotStarted:
			if n != 0 {
				add("action-status", "notstarted-with-attempts", "action %s NotStarted with %d attempts", o.Addr, n)
			}
		}
		for i, at := range o.Attempts {
			if at.Start > at.End {
				add("start-after-end", "attempt", "action %s attempt %d: start > end", o.Addr, i)
			}
		}
		if withTokens && t != nil && n > 0 && (o.Status == spec.Completed || o.Status == spec.Failed) {
			if last, ok := t.Last(o.Addr); ok && last.End >= 0 {
				want := fmt.Sprintf("%s#%d", last.Tag, last.N)
				at := o.Attempts[n-1]
				got := at.Tok
				if at.HasErr {
					got = at.ErrMsg
				}
				if last.Out != plug.Overrun && last.Out != plug.WrongType && last.Out != plug.WrongTypeErr && last.Out != plug.WrongPtr && !strings.HasSuffix(got, want) {
					add("attempt-token", "", "action %s: final attempt carries %q, the plugin's last invocation was %s (%s)", o.Addr, got, want, last.Out)
				}
			}
		}
	}
	// reason
	reason := p.Reason
	if (pst == spec.Completed) != (reason == 0) {
		add("reason", fmt.Sprintf("status=%s,reason=%s", StName(pst), reasonName[reason]), "plan is %s with reason %s", StName(pst), reasonName[reason])
	} else if pst == spec.Failed {
		R := map[int]bool{}
		if p.Status("P.pre") == spec.Failed {
			R[100] = true
		}
		if p.Status("P.cont") == spec.Failed {
			R[400] = true
		}
		if p.Status("P.post") == spec.Failed {
			R[300] = true
		}
		if p.Status("P.deferred") == spec.Failed {
			R[450] = true
		}
		for bi := range ps.Blocks {
			if p.Status(fmt.Sprintf("B%d", bi)) == spec.Failed {
				R[200] = true
			}
		}
		if !R[reason] {
			var names []string
			for _, r := range []int{100, 400, 300, 450, 200} {
				if R[r] {
					names = append(names, reasonName[r])
				}
			}
			blamedStatus := ""
			switch reason {
			case 100:
				blamedStatus = StName(p.Status("P.pre"))
			case 400:
				blamedStatus = StName(p.Status("P.cont"))
			case 300:
				blamedStatus = StName(p.Status("P.post"))
			case 450:
				blamedStatus = StName(p.Status("P.deferred"))
			}
			add("reason", fmt.Sprintf("blamed=%s(%s),failed=%s", reasonName[reason], blamedStatus, strings.Join(names, "+")), "plan Failed with reason %s, but the stages that failed are %v", reasonName[reason], names)
		}
	}
	return out
}

// C04 applies terminal/quiescent/stable/consistent/truthful rules for one plan.
func C04(ps *spec.Plan, t *Trace, p0, p1 *spec.PlanView, graceSeq int) []ev.Violation {
	var out []ev.Violation
	add := func(rule, disc, f string, a ...any) { out = append(out, ev.V("C04", rule, disc, f, a...)) }
	if p0 == nil {
		return out
	}
	out = append(out, Consistency("C04", ps, t, p0, true)...)
	// quiescence at Wait return
	for _, inv := range t.Invs {
		if inv.Begin < t.WaitSeq && (inv.End < 0 || inv.End > t.WaitSeq) {
			add("plugin-in-flight", inv.Addr.Kind, "plugin invocation %s#%d was still executing when Wait returned (begin %d, end %d, wait %d)", inv.Tag, inv.N, inv.Begin, inv.End, t.WaitSeq)
			break
		}
	}
	for _, inv := range t.Invs {
		if inv.Begin > t.WaitSeq {
			add("plugin-after-wait", inv.Addr.Kind, "plugin invocation %s#%d began after Wait returned", inv.Tag, inv.N)
			break
		}
	}
	for _, w := range t.Writes {
		if w.Seq > t.WaitSeq {
			add("write-after-wait", w.Obj, "%s %s (%s) was written with status %s after Wait returned", w.Obj, w.Tag, w.ObjID, StName(w.Status))
			break
		}
	}
	if p1 != nil {
		if eq, why := spec.Equal(p0, p1); !eq {
			add("changed-after-wait", "", "stored plan re-read after quiescence differs from the plan Wait returned: %s", why)
		}
	}
	return out
}

// ---------- C05 attempts ----------

func C05(ps *spec.Plan, t *Trace, final *spec.PlanView) []ev.Violation {
	var out []ev.Violation
	add := func(rule, disc, f string, a ...any) { out = append(out, ev.V("C05", rule, disc, f, a...)) }
	check := func(a spec.Action, isCont bool) {
		invs := t.Of(a.Tag)
		if len(invs) == 0 {
			return
		}
		// split into runs (cont checks are reset on every run)
		var runs [][]Inv
		cur := []Inv{}
		for _, inv := range invs {
			cur = append(cur, inv)
			terminal := inv.Out == plug.OK || inv.Out == plug.Permanent || inv.Out == plug.WrongType || inv.Out == plug.WrongTypeErr || inv.Out == plug.WrongPtr || len(cur) >= a.Retries+1
			if isCont && terminal {
				runs = append(runs, cur)
				cur = []Inv{}
			}
		}
		if len(cur) > 0 {
			runs = append(runs, cur)
		}
		for ri, run := range runs {
			if len(run) > a.Retries+1 {
				add("too-many-calls", "", "action %s: %d invocations in one run, Retries=%d", a.Tag, len(run), a.Retries)
			}
			for k, inv := range run {
				if k == len(run)-1 {
					break
				}
				if inv.Out == plug.OK || inv.Out == plug.Permanent || inv.Out == plug.WrongType || inv.Out == plug.WrongTypeErr || inv.Out == plug.WrongPtr {
					add("call-after-final", inv.Out, "action %s: invoked again (call %d) after call %d ended %q", a.Tag, run[k+1].N, inv.N, inv.Out)
				}
				if inv.Out != plug.Overrun && (inv.End < 0 || inv.End > run[k+1].Begin) {
					add("overlap", "", "action %s: call %d began before call %d ended", a.Tag, run[k+1].N, inv.N)
				}
			}
			if ri != len(runs)-1 {
				continue
			}
			// stored attempts reflect the last run
			o := final.Get(a.Tag)
			if o == nil {
				continue
			}
			complete := true
			for _, inv := range run {
				if inv.End < 0 {
					complete = false
				}
			}
			if !complete {
				continue
			}
			if o.Status != spec.Completed && o.Status != spec.Failed {
				continue
			}
			if len(o.Attempts) != len(run) {
				add("attempt-count", fmt.Sprintf("stored%scalls", cmp(len(o.Attempts), len(run))), "action %s: %d attempts stored, plugin was invoked %d times in its last run", a.Tag, len(o.Attempts), len(run))
				continue
			}
			for k, inv := range run {
				at := o.Attempts[k]
				tok := fmt.Sprintf("%s#%d", inv.Tag, inv.N)
				switch inv.Out {
				case plug.OK:
					if at.HasErr || at.Tok != tok {
						add("attempt-content", "ok", "action %s attempt %d: want response %s, stored tok=%q err=%q", a.Tag, k, tok, at.Tok, at.ErrMsg)
					}
				case plug.Transient:
					if !at.HasErr || at.Perm || at.ErrMsg != "T:"+tok {
						add("attempt-content", "transient", "action %s attempt %d: want transient error T:%s, stored err=%q perm=%v", a.Tag, k, tok, at.ErrMsg, at.Perm)
					}
				case plug.Permanent:
					if !at.HasErr || !at.Perm || at.ErrMsg != "P:"+tok {
						add("attempt-content", "permanent", "action %s attempt %d: want permanent error P:%s, stored err=%q perm=%v", a.Tag, k, tok, at.ErrMsg, at.Perm)
					}
				case plug.WrongType, plug.WrongTypeErr, plug.WrongPtr:
					if !at.HasErr || !at.Perm || at.HasResp {
						add("attempt-content", "wrongtype", "action %s attempt %d: a response of the wrong type must give a permanent error and no stored response; stored err=%q perm=%v resp=%v", a.Tag, k, at.ErrMsg, at.Perm, at.HasResp)
					}
				case plug.Overrun:
					if !at.HasErr || at.Perm || at.HasResp {
						add("attempt-content", "overrun", "action %s attempt %d: an overrun must be recorded as a retryable failure without response; stored err=%q perm=%v resp=%v", a.Tag, k, at.ErrMsg, at.Perm, at.HasResp)
					}
					if !inv.Cancel && !inv.RdvTO {
						add("overrun-not-cancelled", "", "action %s call %d overran but its context was not cancelled", a.Tag, inv.N)
					}
				}
				if at.Start > at.End {
					add("attempt-times", "start>end", "action %s attempt %d: start > end", a.Tag, k)
				}
				if k > 0 && o.Attempts[k-1].End > at.Start {
					add("attempt-times", "order", "action %s attempt %d starts before attempt %d ended", a.Tag, k, k-1)
				}
			}
			lastInv := run[len(run)-1]
			// retry iff budget remains
			if (lastInv.Out == plug.Transient || lastInv.Out == plug.Overrun) && len(run) < a.Retries+1 && !isCont {
				add("no-retry", lastInv.Out, "action %s: last call ended %q with budget left (%d of %d calls) but no further call", a.Tag, lastInv.Out, len(run), a.Retries+1)
			}
			wantStatus := spec.Failed
			if lastInv.Out == plug.OK {
				wantStatus = spec.Completed
			}
			if o.Status != wantStatus {
				add("action-status", "", "action %s: last call ended %q but action is %s", a.Tag, lastInv.Out, StName(o.Status))
			}
		}
	}
	each := func(c *spec.Checks, cont bool) {
		if c == nil {
			return
		}
		for _, a := range c.Actions {
			check(a, cont)
		}
	}
	each(ps.Bypass, false)
	each(ps.Pre, false)
	each(ps.Cont, true)
	each(ps.Post, false)
	each(ps.Deferred, false)
	for bi := range ps.Blocks {
		b := &ps.Blocks[bi]
		each(b.Bypass, false)
		each(b.Pre, false)
		each(b.Cont, true)
		each(b.Post, false)
		each(b.Deferred, false)
		for _, s := range b.Seqs {
			for _, a := range s.Actions {
				check(a, false)
			}
		}
	}
	return out
}

func cmp(a, b int) string {
	switch {
	case a < b:
		return "<"
	case a > b:
		return ">"
	}
	return "="
}

// ---------- C06 bypass and gating ----------

// groupOutcome: "pass" if every action's (first-run) last invocation ended ok, "fail" if one failed
// (budget exhausted / permanent), "" if the group did not run (completely).
func groupOutcome(t *Trace, c *spec.Checks, firstRunOnly bool) string {
	if c == nil {
		return ""
	}
	allOK := true
	for _, a := range c.Actions {
		invs := t.Of(a.Tag)
		if len(invs) == 0 {
			return ""
		}
		// first run = calls up to the first terminal outcome
		var run []Inv
		for _, inv := range invs {
			run = append(run, inv)
			if inv.Out == plug.OK || inv.Out == plug.Permanent || inv.Out == plug.WrongType || inv.Out == plug.WrongTypeErr || inv.Out == plug.WrongPtr || len(run) >= a.Retries+1 {
				break
			}
		}
		last := run[len(run)-1]
		if last.End < 0 {
			return ""
		}
		if last.Out != plug.OK {
			if last.Out == plug.Permanent || last.Out == plug.WrongType || last.Out == plug.WrongTypeErr || last.Out == plug.WrongPtr || len(run) >= a.Retries+1 {
				return "fail"
			}
			return ""
		}
		_ = firstRunOnly
	}
	if allOK {
		return "pass"
	}
	return ""
}

func C06(ps *spec.Plan, t *Trace, final *spec.PlanView) []ev.Violation {
	var out []ev.Violation
	add := func(rule, disc, f string, a ...any) { out = append(out, ev.V("C06", rule, disc, f, a...)) }
	if final == nil {
		return nil
	}
	type scope struct {
		name                string
		bypass, pre, cont   *spec.Checks
		inScope             func(Inv) bool
		seqInScope          func(Inv) bool
		planLevel           bool
		otherFailurePossibl bool
	}
	scopes := []scope{{name: "P", bypass: ps.Bypass, pre: ps.Pre, cont: ps.Cont,
		inScope:    func(i Inv) bool { return true },
		seqInScope: func(i Inv) bool { return i.Addr.Kind == "seq" }, planLevel: true}}
	for bi := range ps.Blocks {
		b := &ps.Blocks[bi]
		bi := bi
		scopes = append(scopes, scope{name: fmt.Sprintf("B%d", bi), bypass: b.Bypass, pre: b.Pre, cont: b.Cont,
			inScope:    func(i Inv) bool { return i.Addr.Block == bi },
			seqInScope: func(i Inv) bool { return i.Addr.Kind == "seq" && i.Addr.Block == bi }})
	}
	for _, sc := range scopes {
		lvl := sc.name[:1]
		st := final.Status(sc.name)
		if sc.bypass != nil {
			switch groupOutcome(t, sc.bypass, true) {
			case "pass":
				// nothing else in the scope is invoked
				for _, inv := range t.Filter(sc.inScope) {
					if inv.Addr.Kind == "bypass" && inv.Addr.Scope() == sc.name {
						continue
					}
					add("bypass-ran-more", lvl+","+inv.Addr.Kind, "every bypass check of %s succeeded, yet %s was invoked", sc.name, inv.Tag)
					break
				}
				if st != spec.Completed {
					add("bypass-status", lvl, "every bypass check of %s succeeded but it ended %s", sc.name, StName(st))
				}
				continue
			case "fail":
				// the scope runs normally; bypass failure alone never fails it
				ran := false
				for _, inv := range t.Filter(sc.inScope) {
					if !(inv.Addr.Kind == "bypass" && inv.Addr.Scope() == sc.name) {
						ran = true
						break
					}
				}
				// "runs normally" includes being stopped by something else (e.g. a plan-level continuous check
				// that fails before the first launch): only a scope that ends Completed without having run
				// anything was treated as bypassed
				if !ran && st == spec.Completed {
					add("bypass-fail-skipped", lvl, "a bypass check of %s failed but nothing else of the scope was invoked and the scope ended Completed", sc.name)
				}
				if st == spec.Failed && !anythingElseFailed(ps, t, final, sc.name) {
					add("bypass-fail-failed-scope", lvl, "a bypass check of %s failed, nothing else failed, yet the scope ended Failed", sc.name)
				}
			}
		}
		// gating: the gate was taken at all - a sequence action of the scope begins only after every pre-check and
		// the initial run of every continuous check of the scope has returned successfully (a group the engine lost,
		// e.g. because the vault did not hand it back, is a gate that was never taken)
		if seqs := t.Filter(sc.seqInScope); len(seqs) > 0 {
			first := seqs[0].Begin
			for _, s2 := range seqs {
				if s2.Begin < first {
					first = s2.Begin
				}
			}
			for gname, g := range map[string]*spec.Checks{"pre": sc.pre, "cont": sc.cont} {
				if g == nil {
					continue
				}
				for _, a := range g.Actions {
					passed := false
					for _, inv := range t.Of(a.Tag) {
						if inv.End >= 0 && inv.End < first && inv.Out == plug.OK {
							passed = true
						}
					}
					if !passed {
						add("gate-not-taken", lvl+","+gname, "sequence action %s of %s was invoked although %s-check %s had not returned successfully before it", seqs[0].Tag, sc.name, gname, a.Tag)
						break
					}
				}
			}
		}
		// gating: a failed pre-check or a failed first continuous-check run
		gateFail := ""
		if groupOutcome(t, sc.pre, true) == "fail" {
			gateFail = "pre"
		} else if sc.cont != nil && contFirstRunFailed(t, sc.cont) {
			gateFail = "cont"
		}
		if gateFail != "" {
			for _, inv := range t.Filter(sc.seqInScope) {
				add("gate-"+gateFail, lvl, "%s-check of %s failed in its initial run, yet sequence action %s was invoked", gateFail, sc.name, inv.Tag)
				break
			}
			if st != spec.Failed {
				add("gate-"+gateFail+"-status", lvl, "%s-check of %s failed in its initial run but the scope ended %s", gateFail, sc.name, StName(st))
			} else if sc.planLevel {
				if final.Reason != 100 && final.Reason != 400 {
					add("gate-reason", gateFail+","+reasonName[final.Reason], "plan %s-check failed in its initial run but the reason is %s", gateFail, reasonName[final.Reason])
				}
			}
		}
	}
	return out
}

// contFirstRunFailed: the first run of the continuous-check group has a failed action.
func contFirstRunFailed(t *Trace, c *spec.Checks) bool {
	for _, a := range c.Actions {
		invs := t.Of(a.Tag)
		var run []Inv
		for _, inv := range invs {
			run = append(run, inv)
			if inv.Out == plug.OK || inv.Out == plug.Permanent || inv.Out == plug.WrongType || inv.Out == plug.WrongTypeErr || inv.Out == plug.WrongPtr || len(run) >= a.Retries+1 {
				break
			}
		}
		if len(run) == 0 {
			continue
		}
		last := run[len(run)-1]
		if last.End >= 0 && last.Out != plug.OK && (last.Out == plug.Permanent || last.Out == plug.WrongType || last.Out == plug.WrongTypeErr || last.Out == plug.WrongPtr || len(run) >= a.Retries+1) {
			return true
		}
	}
	return false
}

// anythingElseFailed: some non-bypass stage inside scope failed according to the final plan or the log.
func anythingElseFailed(ps *spec.Plan, t *Trace, final *spec.PlanView, scope string) bool {
	for _, o := range final.Objs {
		if o.Status != spec.Failed {
			continue
		}
		if o.Addr == scope {
			continue
		}
		if scope == "P" {
			if strings.HasPrefix(o.Addr, "P.bypass") {
				continue
			}
			return true
		}
		if strings.HasPrefix(o.Addr, scope+".") && !strings.HasPrefix(o.Addr, scope+".bypass") {
			return true
		}
		if strings.HasPrefix(o.Addr, "P.cont") {
			return true
		}
	}
	return false
}

// ---------- C07 continuous checks not lost, deferred checks always run ----------

type C07Result struct {
	Viols []ev.Violation
	// Zones in which a continuous-check failure landed (measured from the log).
	Zones map[string]int
}

func C07(ps *spec.Plan, t *Trace, final *spec.PlanView) C07Result {
	res := C07Result{Zones: map[string]int{}}
	add := func(rule, disc, f string, a ...any) { res.Viols = append(res.Viols, ev.V("C07", rule, disc, f, a...)) }
	if final == nil {
		return res
	}
	// (1) a failed continuous-check run fails the scope
	contFailedAt := func(c *spec.Checks) int {
		if c == nil {
			return -1
		}
		at := -1
		for _, a := range c.Actions {
			run := 0
			for _, inv := range t.Of(a.Tag) {
				if inv.End < 0 {
					continue
				}
				run++
				failed := false
				switch inv.Out {
				case plug.OK:
					run = 0
				case plug.Permanent, plug.WrongType, plug.WrongTypeErr, plug.WrongPtr:
					failed = true
				default:
					failed = run >= a.Retries+1
				}
				if failed && (at < 0 || inv.End < at) {
					at = inv.End
				}
			}
		}
		return at
	}
	zone := func(at int, seqInScope func(Inv) bool, postDef []*spec.Checks) string {
		seqs := t.Filter(seqInScope)
		if len(seqs) == 0 {
			return "no-sequences"
		}
		firstBegin := seqs[0].Begin
		lastBegin, lastEnd := -1, -1
		for _, s := range seqs {
			if s.Begin > lastBegin {
				lastBegin = s.Begin
			}
			if s.End > lastEnd {
				lastEnd = s.End
			}
		}
		switch {
		case at < firstBegin:
			return "before-first-sequence"
		case at < lastBegin:
			return "between-launches"
		case at < lastEnd:
			return "during-last-sequences"
		default:
			return "after-sequences"
		}
	}
	if at := contFailedAt(ps.Cont); at >= 0 {
		res.Zones["plan:"+zone(at, func(i Inv) bool { return i.Addr.Kind == "seq" }, nil)]++
		if final.Status("P") != spec.Failed {
			add("cont-failure-lost", "P", "a run of the plan's continuous checks failed (seq %d) but the plan ended %s", at, StName(final.Status("P")))
		} else {
			others := false
			for _, k := range []string{"pre", "post", "deferred"} {
				if final.Status("P."+k) == spec.Failed {
					others = true
				}
			}
			blockFailedIndependently := false
			for bi := range ps.Blocks {
				b := &ps.Blocks[bi]
				ba := fmt.Sprintf("B%d", bi)
				if final.Status(ba) == spec.Failed {
					F := 0
					for si := range b.Seqs {
						if final.Status(seqAddr(bi, si)) == spec.Failed {
							F++
						}
					}
					if (b.Tol >= 0 && F > b.Tol) || groupAnyFailed(final, ba) {
						blockFailedIndependently = true
					}
				}
			}
			if !others && !blockFailedIndependently && final.Reason != 400 {
				add("cont-reason", reasonName[final.Reason], "only the plan's continuous checks failed but the reason is %s", reasonName[final.Reason])
			}
		}
	}
	for bi := range ps.Blocks {
		b := &ps.Blocks[bi]
		bi := bi
		if at := contFailedAt(b.Cont); at >= 0 {
			res.Zones["block:"+zone(at, func(i Inv) bool { return i.Addr.Kind == "seq" && i.Addr.Block == bi }, nil)]++
			if st := final.Status(fmt.Sprintf("B%d", bi)); st != spec.Failed {
				add("cont-failure-lost", "B", "a run of block %d's continuous checks failed (seq %d) but the block ended %s", bi, at, StName(st))
			}
			if final.Status("P") != spec.Failed {
				add("cont-failure-lost", "B-plan", "a run of block %d's continuous checks failed but the plan ended %s", bi, StName(final.Status("P")))
			}
		}
	}
	// (3) deferred checks: exactly one run if the scope was entered and not bypassed, zero otherwise
	deferred := func(scope string, c, bypass *spec.Checks, entered bool) {
		if c == nil {
			return
		}
		bypassed := bypass != nil && groupOutcome(t, bypass, true) == "pass"
		for _, a := range c.Actions {
			invs := t.Of(a.Tag)
			runs := 0
			n := 0
			for _, inv := range invs {
				n++
				if inv.Out == plug.OK || inv.Out == plug.Permanent || inv.Out == plug.WrongType || inv.Out == plug.WrongTypeErr || inv.Out == plug.WrongPtr || n >= a.Retries+1 {
					runs++
					n = 0
				}
			}
			if n > 0 {
				runs++
			}
			switch {
			case (!entered || bypassed) && runs > 0:
				add("deferred-ran-unentered", scope[:1], "deferred check %s ran although %s was %s", a.Tag, scope, map[bool]string{true: "bypassed", false: "never entered"}[bypassed])
			case entered && !bypassed && runs == 0:
				add("deferred-not-run", scope[:1]+","+StName(final.Status(scope)), "%s was entered (ended %s) but its deferred check %s never ran", scope, StName(final.Status(scope)), a.Tag)
			case runs > 1:
				add("deferred-ran-twice", scope[:1], "deferred check %s ran %d times", a.Tag, runs)
			}
		}
		if entered && !bypassed && groupOutcome(t, c, true) == "fail" && final.Status(scope) != spec.Failed {
			add("deferred-failure-lost", scope[:1], "a deferred check of %s failed but the scope ended %s", scope, StName(final.Status(scope)))
		}
	}
	planEntered := len(t.Invs) > 0 || final.Status("P") != spec.NotStarted
	deferred("P", ps.Deferred, ps.Bypass, planEntered)
	for bi := range ps.Blocks {
		b := &ps.Blocks[bi]
		ba := fmt.Sprintf("B%d", bi)
		entered := final.Status(ba) != spec.NotStarted
		if !entered {
			for _, inv := range t.Invs {
				if inv.Addr.Block == bi {
					entered = true
					break
				}
			}
		}
		deferred(ba, b.Deferred, b.Bypass, entered)
	}
	return res
}

// ---------- C08 persist before act ----------

func C08(ps *spec.Plan, t *Trace, p0 *spec.PlanView) []ev.Violation {
	var out []ev.Violation
	add := func(rule, disc, f string, a ...any) { out = append(out, ev.V("C08", rule, disc, f, a...)) }
	// index writes by tag
	wByTag := map[string][]Write{}
	var planWrites []Write
	for _, w := range t.Writes {
		if w.Obj == "plan" {
			planWrites = append(planWrites, w)
			continue
		}
		wByTag[w.Obj+":"+w.Tag] = append(wByTag[w.Obj+":"+w.Tag], w)
	}
	hasWrite := func(key string, before int, pred func(Write) bool) bool {
		for _, w := range wByTag[key] {
			if w.Seq < before && pred(w) {
				return true
			}
		}
		return false
	}
	isRunning := func(w Write) bool { return w.Status == spec.Running }
	reported := map[string]bool{}
	once := func(k string) bool {
		if reported[k] {
			return false
		}
		reported[k] = true
		return true
	}
	for _, inv := range t.Invs {
		// 1/2: durable Running / durable previous attempts before invocation. Continuous-check actions are
		// reset on every run, so the attempt count rule is applied within a run (NAtt of the last write
		// before the begin must be >= calls so far in that run); we apply it to non-cont actions only.
		if !hasWrite("action:"+inv.Tag, inv.Begin, isRunning) && once("r:"+inv.Tag) {
			add("invoke-before-running", inv.Addr.Kind, "plugin of %s invoked (seq %d) with no earlier durable Running write of the action", inv.Tag, inv.Begin)
		}
		if inv.N > 1 && inv.Addr.Kind != "cont" {
			need := inv.N - 1
			if !hasWrite("action:"+inv.Tag, inv.Begin, func(w Write) bool { return w.NAtt >= need }) && once("a:"+inv.Tag) {
				add("retry-before-attempt-durable", inv.Addr.Kind, "call %d of %s began (seq %d) before attempt %d was durable", inv.N, inv.Tag, inv.Begin, need)
			}
		}
		if inv.Addr.Kind == "seq" {
			bi, si, ai := inv.Addr.Block, inv.Addr.Seq, inv.Addr.Idx
			if ai > 0 && inv.N == 1 && bi < len(ps.Blocks) && si < len(ps.Blocks[bi].Seqs) && ai < len(ps.Blocks[bi].Seqs[si].Actions) {
				prev := ps.Blocks[bi].Seqs[si].Actions[ai-1].Tag
				if !hasWrite("action:"+prev, inv.Begin, func(w Write) bool { return w.Status == spec.Completed && w.NAtt >= 1 && w.LastOK }) && once("p:"+inv.Tag) {
					add("next-before-result-durable", "", "%s began (seq %d) before the Completed result of %s was durable", inv.Tag, inv.Begin, prev)
				}
			}
			if !hasWrite("seq:"+seqAddr(bi, si), inv.Begin, isRunning) && once("s:"+seqAddr(bi, si)) {
				add("invoke-before-running", "seq", "%s invoked before its sequence was durably Running", inv.Tag)
			}
		}
		if inv.Addr.Block >= 0 {
			if !hasWrite(fmt.Sprintf("block:B%d", inv.Addr.Block), inv.Begin, isRunning) && once(fmt.Sprintf("b:%d", inv.Addr.Block)) {
				add("invoke-before-running", "block", "%s invoked before its block was durably Running", inv.Tag)
			}
		}
		okPlan := false
		for _, w := range planWrites {
			if w.Seq < inv.Begin && w.Status == spec.Running {
				okPlan = true
				break
			}
		}
		if !okPlan && once("plan") {
			add("invoke-before-running", "plan", "%s invoked before the plan was durably Running", inv.Tag)
		}
	}
	// 4: at Wait return the last write of every object equals the returned plan, which is terminal
	if p0 != nil && t.WaitSeq >= 0 {
		last := map[string]Write{}
		for _, w := range t.Writes {
			if w.Seq < t.WaitSeq {
				last[w.ObjID] = w
			}
		}
		for _, o := range p0.Objs {
			w, ok := last[o.ID]
			if !ok {
				if o.Status != spec.NotStarted {
					add("terminal-not-durable", o.Kind+",never-written", "%s %s is %s in the plan Wait returned but was never written before Wait returned", o.Kind, o.Addr, StName(o.Status))
				}
				continue
			}
			if w.Status != o.Status {
				add("terminal-not-durable", o.Kind, "%s %s: last write before Wait returned has status %s, Wait returned %s", o.Kind, o.Addr, StName(w.Status), StName(o.Status))
			}
			if o.Kind == "action" && w.NAtt != len(o.Attempts) {
				add("terminal-not-durable", "attempts", "action %s: last write before Wait has %d attempts, Wait returned %d", o.Addr, w.NAtt, len(o.Attempts))
			}
		}
		pst := p0.Status("P")
		terminalWritten := false
		for _, w := range planWrites {
			if w.Seq < t.WaitSeq && (w.Status == spec.Completed || w.Status == spec.Failed) {
				terminalWritten = true
			}
		}
		if !terminalWritten {
			add("terminal-not-durable", "plan", "Wait returned (plan %s) before any terminal plan write", StName(pst))
		}
	}
	return out
}
