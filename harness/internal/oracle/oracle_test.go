package oracle

import (
	"strings"
	"testing"

	"verifharness/internal/plug"
	"verifharness/internal/spec"
)

// Synthetic logs: each oracle must be silent on a correct trace and fire (with the expected rule) on a trace that
// breaks exactly one thing. Protects the oracles against our own edits.

const pid = "plan-1"

type lb struct{ evs []plug.Event }

func (l *lb) add(kind, tag string, n int, out string) *lb {
	l.evs = append(l.evs, plug.Event{Seq: len(l.evs), Kind: kind, PlanID: pid, Plan: "p0", Tag: tag, N: n, Out: out})
	return l
}
func (l *lb) inv(tag string, n int, out string) *lb {
	return l.add("begin", tag, n, "").add("end", tag, n, out)
}
func (l *lb) write(obj, tag string, status, natt int, lastOK bool) *lb {
	l.evs = append(l.evs, plug.Event{Seq: len(l.evs), Kind: "write", PlanID: pid, Obj: obj, Tag: tag, ObjID: obj + ":" + tag, Status: status, NAtt: natt, LastOK: lastOK})
	return l
}

func twoBlockPlan() *spec.Plan {
	ok := []plug.Step{{Out: plug.OK}}
	p := &spec.Plan{Name: "p0",
		Pre:      &spec.Checks{Actions: []spec.Action{{Steps: ok}}},
		Deferred: &spec.Checks{Actions: []spec.Action{{Steps: ok}}},
		Blocks: []spec.Block{
			{Conc: 1, Tol: 0, Post: &spec.Checks{Actions: []spec.Action{{Steps: ok}}}, Seqs: []spec.Seq{{Actions: []spec.Action{{Steps: ok}, {Steps: ok}}}, {Actions: []spec.Action{{Steps: ok}}}}},
			{Conc: 1, Tol: 0, Seqs: []spec.Seq{{Actions: []spec.Action{{Steps: ok}}}}},
		}}
	p.AssignTags()
	return p
}

func goodLog() *lb {
	l := &lb{}
	l.inv("P.pre.0", 1, plug.OK)
	l.inv("B0.S0.A0", 1, plug.OK).inv("B0.S0.A1", 1, plug.OK).inv("B0.S1.A0", 1, plug.OK)
	l.inv("B0.post.0", 1, plug.OK)
	l.inv("B1.S0.A0", 1, plug.OK)
	l.inv("P.deferred.0", 1, plug.OK)
	return l
}

func has(t *testing.T, name string, sigs []string, want string) {
	t.Helper()
	for _, s := range sigs {
		if strings.Contains(s, want) {
			return
		}
	}
	t.Errorf("%s: want a violation containing %q, got %v", name, want, sigs)
}

func c01Sigs(ps *spec.Plan, l *lb) []string {
	var out []string
	for _, v := range C01(ps, Project(l.evs, pid, -1)) {
		out = append(out, v.Sig)
	}
	return out
}

func TestC01(t *testing.T) {
	ps := twoBlockPlan()
	if s := c01Sigs(ps, goodLog()); len(s) != 0 {
		t.Fatalf("good log flagged: %v", s)
	}
	// block 1 begins before block 0 finished
	l := &lb{}
	l.inv("P.pre.0", 1, plug.OK).add("begin", "B0.S0.A0", 1, "").inv("B1.S0.A0", 1, plug.OK).add("end", "B0.S0.A0", 1, plug.OK)
	has(t, "block overlap", c01Sigs(ps, l), "block-overlap")
	// next action after a failed one
	l = &lb{}
	l.inv("P.pre.0", 1, plug.OK).inv("B0.S0.A0", 1, plug.Permanent).inv("B0.S0.A1", 1, plug.OK)
	has(t, "prev failed", c01Sigs(ps, l), "seq-order/prev-failed")
	// sequence action before the plan pre-check passed
	l = &lb{}
	l.inv("B0.S0.A0", 1, plug.OK).inv("P.pre.0", 1, plug.OK)
	has(t, "pre gate", c01Sigs(ps, l), "pre-gate")
	// post check while a sequence action is still running
	l = &lb{}
	l.inv("P.pre.0", 1, plug.OK).add("begin", "B0.S0.A0", 1, "").inv("B0.post.0", 1, plug.OK).add("end", "B0.S0.A0", 1, plug.OK)
	has(t, "post early", c01Sigs(ps, l), "post-early")
	// deferred checks before the last sequence action ended
	l = &lb{}
	l.inv("P.pre.0", 1, plug.OK).add("begin", "B0.S0.A0", 1, "").inv("P.deferred.0", 1, plug.OK).add("end", "B0.S0.A0", 1, plug.OK)
	has(t, "deferred early", c01Sigs(ps, l), "deferred-early")
	// two overlapping invocations of one action
	l = &lb{}
	l.inv("P.pre.0", 1, plug.OK).add("begin", "B0.S0.A0", 1, "").add("begin", "B0.S0.A0", 2, "").add("end", "B0.S0.A0", 1, plug.OK).add("end", "B0.S0.A0", 2, plug.OK)
	has(t, "action overlap", c01Sigs(ps, l), "action-overlap")
}

func TestC02(t *testing.T) {
	ps := twoBlockPlan()
	if r := C02(ps, goodLog().evs, pid); len(r.Viols) != 0 {
		t.Fatalf("good log flagged: %v", r.Viols)
	}
	l := &lb{}
	l.add("begin", "B0.S0.A0", 1, "").add("begin", "B0.S1.A0", 1, "").add("end", "B0.S0.A0", 1, plug.OK).add("end", "B0.S1.A0", 1, plug.OK)
	r := C02(ps, l.evs, pid)
	if len(r.Viols) == 0 || !strings.Contains(r.Viols[0].Sig, "bound") {
		t.Errorf("two sequences in flight with Concurrency 1 not flagged: %v", r.Viols)
	}
	l = &lb{}
	l.add("begin", "B0.S0.A0", 1, "").add("begin", "B1.S0.A0", 1, "").add("end", "B0.S0.A0", 1, plug.OK).add("end", "B1.S0.A0", 1, plug.OK)
	r = C02(ps, l.evs, pid)
	if len(r.Viols) == 0 || !strings.Contains(r.Viols[0].Sig, "two-blocks") {
		t.Errorf("two blocks in flight not flagged: %v", r.Viols)
	}
}

func view(st map[string]int, reason int) *spec.PlanView {
	v := &spec.PlanView{ID: pid, Reason: reason}
	for _, addr := range []string{"P", "P.pre", "P.pre.0", "B0", "B0.S0", "B0.S0.A0", "B0.S0.A1", "B0.S1", "B0.S1.A0", "B0.post", "B0.post.0", "B1", "B1.S0", "B1.S0.A0", "P.deferred", "P.deferred.0"} {
		s, ok := st[addr]
		if !ok {
			s = spec.Completed
		}
		kind := "action"
		switch {
		case addr == "P":
			kind = "plan"
		case len(addr) == 2:
			kind = "block"
		case strings.Count(addr, ".") == 1 && strings.Contains(addr, ".S"):
			kind = "seq"
		case strings.Count(addr, ".") == 1:
			kind = "checks"
		}
		o := spec.ObjView{Kind: kind, Addr: addr, ID: kind + ":" + addr, Status: s}
		if kind == "action" && (s == spec.Completed || s == spec.Failed) {
			o.Attempts = []spec.AttemptView{{HasErr: s == spec.Failed, HasResp: s == spec.Completed, Tok: addr + "#1", ErrMsg: "P:" + addr + "#1", Start: 1, End: 2}}
		}
		v.Objs = append(v.Objs, o)
	}
	return v
}

func TestC03(t *testing.T) {
	ps := twoBlockPlan()
	if vs := C03(ps, Project(goodLog().evs, pid, -1), view(nil, 0)); len(vs) != 0 {
		t.Fatalf("good run flagged: %v", vs)
	}
	// sequence 0 fails with tolerance 0 and Concurrency 1, yet sequence 1 runs and the block completes
	l := &lb{}
	l.inv("P.pre.0", 1, plug.OK).inv("B0.S0.A0", 1, plug.Permanent).inv("B0.S1.A0", 1, plug.OK).inv("B1.S0.A0", 1, plug.OK)
	final := view(map[string]int{"B0.S0": spec.Failed, "B0.S0.A0": spec.Failed, "B0.S0.A1": spec.NotStarted}, 0)
	var sigs []string
	for _, v := range C03(ps, Project(l.evs, pid, -1), final) {
		sigs = append(sigs, v.Sig)
	}
	has(t, "ran past", sigs, "stop-exactly/ran-past")
	has(t, "block status", sigs, "block-status/should-fail")
}

func TestC04Consistency(t *testing.T) {
	ps := twoBlockPlan()
	tr := Project(goodLog().evs, pid, len(goodLog().evs))
	if vs := Consistency("C04", ps, tr, view(nil, 0), true); len(vs) != 0 {
		t.Fatalf("good plan flagged: %v", vs)
	}
	var sigs []string
	for _, v := range Consistency("C04", ps, tr, view(map[string]int{"B0.S1": spec.Running}, 0), true) {
		sigs = append(sigs, v.Sig)
	}
	has(t, "left running", sigs, "left-running/seq")
	sigs = nil
	for _, v := range Consistency("C04", ps, tr, view(map[string]int{"P": spec.Failed, "B1": spec.Failed}, 300), true) {
		sigs = append(sigs, v.Sig)
	}
	has(t, "wrong reason", sigs, "C04/reason/blamed=PostCheck")
	sigs = nil
	for _, v := range Consistency("C04", ps, tr, view(map[string]int{"P": spec.Failed, "B1": spec.Failed}, 0), true) {
		sigs = append(sigs, v.Sig)
	}
	has(t, "reason unset on failure", sigs, "C04/reason/status=Failed,reason=Unknown")
}

func TestC08(t *testing.T) {
	ps := twoBlockPlan()
	// correct: Running write before begin
	l := &lb{}
	l.write("plan", "", spec.Running, 0, false).write("block", "B0", spec.Running, 0, false).write("seq", "B0.S0", spec.Running, 0, false)
	l.write("action", "B0.S0.A0", spec.Running, 0, false).inv("B0.S0.A0", 1, plug.OK).write("action", "B0.S0.A0", spec.Completed, 1, true)
	l.write("action", "B0.S0.A1", spec.Running, 0, false).inv("B0.S0.A1", 1, plug.OK)
	if vs := C08(ps, Project(l.evs, pid, -1), nil); len(vs) != 0 {
		t.Fatalf("good log flagged: %v", vs)
	}
	// plugin invoked before its Running write
	l = &lb{}
	l.write("plan", "", spec.Running, 0, false).write("block", "B0", spec.Running, 0, false).write("seq", "B0.S0", spec.Running, 0, false)
	l.inv("B0.S0.A0", 1, plug.OK).write("action", "B0.S0.A0", spec.Running, 0, false)
	var sigs []string
	for _, v := range C08(ps, Project(l.evs, pid, -1), nil) {
		sigs = append(sigs, v.Sig)
	}
	has(t, "invoke before running", sigs, "invoke-before-running/seq")
	// next action before the previous result is durable
	l = &lb{}
	l.write("plan", "", spec.Running, 0, false).write("block", "B0", spec.Running, 0, false).write("seq", "B0.S0", spec.Running, 0, false)
	l.write("action", "B0.S0.A0", spec.Running, 0, false).inv("B0.S0.A0", 1, plug.OK)
	l.write("action", "B0.S0.A1", spec.Running, 0, false).inv("B0.S0.A1", 1, plug.OK)
	sigs = nil
	for _, v := range C08(ps, Project(l.evs, pid, -1), nil) {
		sigs = append(sigs, v.Sig)
	}
	has(t, "next before durable", sigs, "next-before-result-durable")
}
