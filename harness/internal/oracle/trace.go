// Package oracle: pure functions from (spec, event log, observed plans) to violations.
package oracle

import (
	"fmt"
	"sort"

	"verifharness/internal/plug"
	"verifharness/internal/spec"
)

// Inv is one plugin invocation reconstructed from the log.
type Inv struct {
	Tag    string
	Addr   spec.Addr
	N      int
	Begin  int // seq of begin event
	End    int // seq of end event, -1 if none in the log
	Out    string
	Cancel bool
	RdvTO  bool
	ActID  string
}

func (i Inv) OK() bool { return i.End >= 0 && (i.Out == plug.OK) }

// Write is one vault write event of this plan.
type Write struct {
	Seq    int
	Obj    string
	ObjID  string
	Tag    string // block name, seq name, action tag, group address
	Status int
	NAtt   int
	LastOK bool
	HasEnd bool
	Reason int
}

// Trace is the per-plan projection of the merged log.
type Trace struct {
	PlanID  string
	Invs    []Inv            // in begin order
	ByTag   map[string][]int // indices into Invs
	Writes  []Write
	WaitSeq int // -1 if Wait did not return
	LastSeq int
}

// Project extracts the trace of plan id.
func Project(events []plug.Event, planID string, waitSeq int) *Trace {
	t := &Trace{PlanID: planID, ByTag: map[string][]int{}, WaitSeq: waitSeq}
	open := map[string]int{} // tag#n -> index
	for _, e := range events {
		if e.PlanID != planID {
			continue
		}
		t.LastSeq = e.Seq
		switch e.Kind {
		case "begin":
			a, _ := spec.ParseTag(e.Tag)
			t.Invs = append(t.Invs, Inv{Tag: e.Tag, Addr: a, N: e.N, Begin: e.Seq, End: -1, ActID: e.ActID})
			idx := len(t.Invs) - 1
			t.ByTag[e.Tag] = append(t.ByTag[e.Tag], idx)
			open[fmt.Sprintf("%s#%d", e.Tag, e.N)] = idx
		case "end":
			k := fmt.Sprintf("%s#%d", e.Tag, e.N)
			if idx, ok := open[k]; ok {
				t.Invs[idx].End = e.Seq
				t.Invs[idx].Out = e.Out
				t.Invs[idx].Cancel = e.Cancel
				t.Invs[idx].RdvTO = e.RdvTO
				delete(open, k)
			}
		case "write":
			t.Writes = append(t.Writes, Write{Seq: e.Seq, Obj: e.Obj, ObjID: e.ObjID, Tag: e.Tag, Status: e.Status, NAtt: e.NAtt, LastOK: e.LastOK, HasEnd: e.HasEnd, Reason: e.Reason})
		}
	}
	return t
}

// Of returns the invocations of tag in order.
func (t *Trace) Of(tag string) []Inv {
	var out []Inv
	for _, i := range t.ByTag[tag] {
		out = append(out, t.Invs[i])
	}
	return out
}

// Began reports whether tag has any invocation.
func (t *Trace) Began(tag string) bool { return len(t.ByTag[tag]) > 0 }

// Last returns the last invocation of tag.
func (t *Trace) Last(tag string) (Inv, bool) {
	idx := t.ByTag[tag]
	if len(idx) == 0 {
		return Inv{}, false
	}
	return t.Invs[idx[len(idx)-1]], true
}

// InScope returns invocations whose address satisfies f.
func (t *Trace) Filter(f func(Inv) bool) []Inv {
	var out []Inv
	for _, i := range t.Invs {
		if f(i) {
			out = append(out, i)
		}
	}
	return out
}

// ISig is a signature of the interleaving: hash input is the ordered (kind, tag) list of plugin events.
func ISig(events []plug.Event) string {
	h := uint64(1469598103934665603)
	mix := func(s string) {
		for i := 0; i < len(s); i++ {
			h ^= uint64(s[i])
			h *= 1099511628211
		}
	}
	for _, e := range events {
		if e.Kind == "begin" || e.Kind == "end" {
			mix(e.Kind)
			mix(e.Plan)
			mix(e.Tag)
			mix("|")
		}
	}
	return fmt.Sprintf("%016x", h)
}

// tagsOfChecks lists the tags of a spec group.
func tagsOfChecks(c *spec.Checks) []string {
	if c == nil {
		return nil
	}
	var out []string
	for _, a := range c.Actions {
		out = append(out, a.Tag)
	}
	return out
}

func sortedKeys(m map[string]bool) []string {
	var out []string
	for k := range m {
		out = append(out, k)
	}
	sort.Strings(out)
	return out
}

// groupFailedRun reports whether the log contains a failed run of some action of the group: an invocation
// that ended with a permanent/wrongtype outcome, or a transient outcome as the last call of an exhausted
// budget (conservatively: transient outcome with n >= retries+1 within its run).
func groupFailedInLog(t *Trace, c *spec.Checks) bool {
	if c == nil {
		return false
	}
	for _, a := range c.Actions {
		run := 0
		for _, inv := range t.Of(a.Tag) {
			if inv.End < 0 {
				continue
			}
			run++
			switch inv.Out {
			case plug.Permanent, plug.WrongType, plug.WrongTypeErr, plug.WrongPtr:
				return true
			case plug.OK:
				run = 0
			case plug.Transient, plug.Overrun:
				if run >= a.Retries+1 {
					return true
				}
			}
		}
	}
	return false
}
