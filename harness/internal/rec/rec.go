// Package rec is the recording vault: it embeds a real vault (which promotes the private marker method)
// and logs every call after it returned, into the same log as the plugins (DESIGN §1.5).
package rec

import (
	"fmt"
	"math/rand"
	"os"
	"sync"
	"syscall"
	"time"

	"github.com/element-of-surprise/coercion/workflow"
	"github.com/element-of-surprise/coercion/workflow/storage"
	"github.com/google/uuid"
	"github.com/gostdlib/base/context"

	"verifharness/internal/plug"
)

// Vault wraps a real vault.
type Vault struct {
	storage.Vault
	L *plug.Log

	mu  sync.Mutex
	rnd *rand.Rand
	// MaxDelayUS: each call sleeps a PRNG-chosen 0..MaxDelayUS before and after the real call with
	// probability 1/2 each (0 = no delays).
	MaxDelayUS int

	writes int
	// KillAt > 0: SIGKILL the own process around the KillAt-th write (before if KillBefore, else after).
	KillAt     int
	KillBefore bool
	// FailAt > 0: the FailAt-th write returns an error without reaching the real vault.
	FailAt int
	// OnWrite, if set, is called after each write was logged (with the write ordinal).
	OnWrite func(n int)
}

func New(v storage.Vault, l *plug.Log, seed int64, maxDelayUS int) *Vault {
	return &Vault{Vault: v, L: l, rnd: rand.New(rand.NewSource(seed)), MaxDelayUS: maxDelayUS}
}

func (v *Vault) jitter() {
	if v.MaxDelayUS <= 0 {
		return
	}
	v.mu.Lock()
	d := 0
	if v.rnd.Intn(2) == 0 {
		d = v.rnd.Intn(v.MaxDelayUS + 1)
	}
	v.mu.Unlock()
	if d > 0 {
		time.Sleep(time.Duration(d) * time.Microsecond)
	}
}

// pre handles fault injection before a write; returns a non-nil error when the write must fail.
func (v *Vault) pre() (int, error) {
	v.mu.Lock()
	v.writes++
	n := v.writes
	v.mu.Unlock()
	if v.KillAt > 0 && n == v.KillAt && v.KillBefore {
		kill()
	}
	if v.FailAt > 0 && n == v.FailAt {
		return n, fmt.Errorf("injected write failure at write %d", n)
	}
	return n, nil
}

func (v *Vault) post(n int) {
	if v.KillAt > 0 && n == v.KillAt && !v.KillBefore {
		kill()
	}
	if v.OnWrite != nil {
		v.OnWrite(n)
	}
}

func kill() {
	syscall.Kill(os.Getpid(), syscall.SIGKILL)
	time.Sleep(time.Hour)
}

func errStr(err error) string {
	if err == nil {
		return ""
	}
	return err.Error()
}

func stateOf(s *workflow.State) (int, bool) {
	if s == nil {
		return -1, false
	}
	return int(s.Status), !s.End.IsZero()
}

func (v *Vault) Create(ctx context.Context, p *workflow.Plan) error {
	v.jitter()
	n, err := v.pre()
	if err == nil {
		err = v.Vault.Create(ctx, p)
	}
	if p != nil {
		st, he := stateOf(p.State)
		v.L.Append(plug.Event{Kind: "create", PlanID: p.ID.String(), Plan: p.Name, Obj: "plan", ObjID: p.ID.String(), Status: st, HasEnd: he, VErr: errStr(err)})
	}
	v.post(n)
	v.jitter()
	return err
}

func (v *Vault) UpdatePlan(ctx context.Context, p *workflow.Plan) error {
	v.jitter()
	n, err := v.pre()
	if err == nil {
		err = v.Vault.UpdatePlan(ctx, p)
	}
	st, he := stateOf(p.State)
	v.L.Append(plug.Event{Kind: "write", PlanID: p.ID.String(), Plan: p.Name, Obj: "plan", ObjID: p.ID.String(), Status: st, HasEnd: he, Reason: int(p.Reason), VErr: errStr(err)})
	v.post(n)
	v.jitter()
	return err
}

func (v *Vault) UpdateBlock(ctx context.Context, b *workflow.Block) error {
	v.jitter()
	n, err := v.pre()
	if err == nil {
		err = v.Vault.UpdateBlock(ctx, b)
	}
	st, he := stateOf(b.State)
	v.L.Append(plug.Event{Kind: "write", PlanID: b.GetPlanID().String(), Obj: "block", ObjID: b.ID.String(), Tag: b.Name, Status: st, HasEnd: he, VErr: errStr(err)})
	v.post(n)
	v.jitter()
	return err
}

func (v *Vault) UpdateChecks(ctx context.Context, c *workflow.Checks) error {
	v.jitter()
	n, err := v.pre()
	if err == nil {
		err = v.Vault.UpdateChecks(ctx, c)
	}
	st, he := stateOf(c.State)
	tag := ""
	if len(c.Actions) > 0 && c.Actions[0] != nil {
		if r, ok := plug.ReqOf(c.Actions[0].Req); ok {
			tag = groupOf(r.Tag)
		}
	}
	v.L.Append(plug.Event{Kind: "write", PlanID: c.GetPlanID().String(), Obj: "checks", ObjID: c.ID.String(), Tag: tag, Status: st, HasEnd: he, VErr: errStr(err)})
	v.post(n)
	v.jitter()
	return err
}

func (v *Vault) UpdateSequence(ctx context.Context, s *workflow.Sequence) error {
	v.jitter()
	n, err := v.pre()
	if err == nil {
		err = v.Vault.UpdateSequence(ctx, s)
	}
	st, he := stateOf(s.State)
	v.L.Append(plug.Event{Kind: "write", PlanID: s.GetPlanID().String(), Obj: "seq", ObjID: s.ID.String(), Tag: s.Name, Status: st, HasEnd: he, VErr: errStr(err)})
	v.post(n)
	v.jitter()
	return err
}

func (v *Vault) UpdateAction(ctx context.Context, a *workflow.Action) error {
	v.jitter()
	n, err := v.pre()
	if err == nil {
		err = v.Vault.UpdateAction(ctx, a)
	}
	st, he := stateOf(a.State)
	tag := ""
	if r, ok := plug.ReqOf(a.Req); ok {
		tag = r.Tag
	}
	na := len(a.Attempts)
	lok := na > 0 && a.Attempts[na-1] != nil && a.Attempts[na-1].Err == nil
	v.L.Append(plug.Event{Kind: "write", PlanID: a.GetPlanID().String(), Obj: "action", ObjID: a.ID.String(), Tag: tag, Status: st, HasEnd: he, NAtt: na, LastOK: lok, VErr: errStr(err)})
	v.post(n)
	v.jitter()
	return err
}

func (v *Vault) Delete(ctx context.Context, id uuid.UUID) error {
	v.jitter()
	n, err := v.pre()
	if err == nil {
		err = v.Vault.Delete(ctx, id)
	}
	v.L.Append(plug.Event{Kind: "delete", PlanID: id.String(), Obj: "plan", ObjID: id.String(), VErr: errStr(err)})
	v.post(n)
	return err
}

func (v *Vault) Read(ctx context.Context, id uuid.UUID) (*workflow.Plan, error) {
	v.jitter()
	p, err := v.Vault.Read(ctx, id)
	v.jitter()
	return p, err
}

// groupOf maps "B0.pre.1" -> "B0.pre", "P.cont.0" -> "P.cont".
func groupOf(tag string) string {
	for i := len(tag) - 1; i >= 0; i-- {
		if tag[i] == '.' {
			return tag[:i]
		}
	}
	return tag
}

// Writes returns the number of writes issued so far.
func (v *Vault) Writes() int {
	v.mu.Lock()
	defer v.mu.Unlock()
	return v.writes
}
