package crash

import (
	"bytes"
	stdctx "context"
	"fmt"
	"runtime/pprof"
	"strings"
	"sync"
	"sync/atomic"
	"time"

	"github.com/element-of-surprise/coercion"
	"github.com/element-of-surprise/coercion/plugins/registry"
	"github.com/element-of-surprise/coercion/workflow/context"
	"github.com/element-of-surprise/coercion/workflow/storage/cosmosdb"
	"github.com/google/uuid"
	"github.com/gostdlib/base/concurrency/worker"

	"verifharness/internal/eng"
	"verifharness/internal/plug"
	"verifharness/internal/spec"
)

// Crash model for the cosmosdb vault (over the package's fake client, verif hook): a process dies between two
// mutating client calls (PatchItem / ExecuteTransactionalBatch). The hook's write gate lets the first k calls
// after Submit through and blocks every later one forever; a second vault over the same storage is what the
// next process sees. Unlike sqlite, UpdatePlan is TWO client writes (document patch, then search-entry replace).

// procCtx returns a root context carrying a worker pool of its own, like a process of its own has. All "processes"
// of a check share one OS process; with the shared default pool (16 permanent workers, queue of 1) the goroutines
// of dead processes, blocked for good behind the write gate, would use up the permanent workers and a job of a
// live process would sit in the queue forever - a hang of the simulation, not of the engine.
func procCtx() (context.Context, *worker.Pool) {
	poolMu.Lock()
	defer poolMu.Unlock()
	prev := worker.Default()
	p, err := worker.New(stdctx.Background(), "verif-proc")
	if err != nil {
		panic(err)
	}
	worker.Set(p)
	ctx := context.Background()
	worker.Set(prev)
	return ctx, p
}

var poolMu sync.Mutex

// CosmosRun is one (possibly cut off) execution of plans on a fresh cosmos fake.
type CosmosRun struct {
	Vault   *cosmosdb.VerifVault
	Log     *plug.Log
	Reg     *registry.Register
	IDs     []uuid.UUID
	Specs   []*spec.Plan
	Finals  []*spec.PlanView // only when uninterrupted
	Writes  []string         // client writes after Submit that went through
	CutOff  bool             // the cutoff was reached (some writer is blocked)
	Elapsed time.Duration
}

// RunCosmos submits and starts the plans; with cutoff > 0 the k-th client write after the submissions is the last
// one that reaches the storage.
func RunCosmos(plans []*spec.Plan, cutoff int64, watchdog time.Duration) (*CosmosRun, error) {
	ctx, pool := procCtx()
	t0 := time.Now()
	l := plug.NewLog()
	reg := plug.Registry(l)
	cv := cosmosdb.NewVerifVault(reg)
	ws, err := coercion.New(ctx, reg, cv.Vault)
	if err != nil {
		return nil, fmt.Errorf("coercion.New: %w", err)
	}
	run := &CosmosRun{Vault: cv, Log: l, Reg: reg, Specs: plans}
	for _, ps := range plans {
		id, err := ws.Submit(ctx, ps.Build())
		if err != nil {
			return nil, fmt.Errorf("submit: %w", err)
		}
		run.IDs = append(run.IDs, id)
	}
	base := len(cv.WriteLog())
	if cutoff > 0 {
		cv.SetCutoff(cutoff)
	}
	for _, id := range run.IDs {
		if err := ws.Start(ctx, id); err != nil {
			return nil, fmt.Errorf("start: %w", err)
		}
	}
	if cutoff <= 0 {
		for _, id := range run.IDs {
			p, werr, ok := eng.WaitPlan(ws, id, watchdog)
			if !ok || werr != nil || p == nil {
				return nil, fmt.Errorf("uninterrupted cosmos run did not finish (ok=%v err=%v)", ok, werr)
			}
			run.Finals = append(run.Finals, spec.View(p))
		}
		eng.Quiesce(l, 15*time.Millisecond, 5*time.Second)
		closePool(pool)
	} else {
		// wait until a writer is blocked behind the cutoff, or every plan finished before reaching it. Only the
		// write gate and the Workstream's own Wait decide this (no quiet-period guess: a slow process is not a
		// dead one, and recovering next to a live process is not a crash). The waiting goroutines may block for
		// good behind a blocked writer's vault mutex, like everything else of the dead process.
		allDone := make(chan struct{})
		go func() {
			for _, id := range run.IDs {
				ws.Wait(ctx, id)
			}
			close(allDone)
		}()
		deadline := time.Now().Add(watchdog)
		finished := false
		for time.Now().Before(deadline) && !finished {
			if _, blocked := cv.Writes(); blocked > 0 {
				run.CutOff = true
				break
			}
			select {
			case <-allDone:
				finished = true
			case <-time.After(2 * time.Millisecond):
			}
		}
		if !run.CutOff && !finished {
			return nil, fmt.Errorf("cosmos run neither reached the cutoff nor finished within %v", watchdog)
		}
		// a write that was let through has "reached the storage": it must have landed before the next process
		// looks (a goroutine descheduled between the gate and the fake would otherwise write into the recovery)
		for cv.Pending() > 0 {
			if time.Now().After(deadline) {
				return nil, fmt.Errorf("a client write that was let through did not return within %v", watchdog)
			}
			time.Sleep(time.Millisecond)
		}
		// let the other goroutines of the "dead" process run into the gate too
		eng.Quiesce(l, 15*time.Millisecond, 5*time.Second)
	}
	wl := cv.WriteLog()
	if len(wl) > base {
		run.Writes = wl[base:]
	}
	run.Elapsed = time.Since(t0)
	return run, nil
}

// CosmosRecovered is the next process.
type CosmosRecovered struct {
	Vault     *cosmosdb.VerifVault
	Log       *plug.Log
	Snapshots []*spec.PlanView // durable state per plan before anything recovers
	SearchRun map[string]bool  // plan ids whose search entry says Running before recovery
	Finals    []*spec.PlanView
	Returned  []bool
	Events    []plug.Event
	NewErr    string
	Dump      string // goroutines of live processes inside coercion code, taken when a Wait did not return
}

// Reopen builds the next process's vault, snapshots the durable state and recovers with a normal Workstream.
func (r *CosmosRun) Reopen(watchdog time.Duration) (out *CosmosRecovered) {
	// every goroutine of this process (pool workers included: the pool is created inside) carries a label, so
	// that a dump taken at a hang can tell them from the parked goroutines of dead processes
	label := fmt.Sprintf("recover-%d", procSeq.Add(1))
	pprof.Do(stdctx.Background(), pprof.Labels("vproc", label), func(stdctx.Context) {
		out = r.reopen(watchdog, label)
	})
	return out
}

var procSeq atomic.Int64

func (r *CosmosRun) reopen(watchdog time.Duration, label string) *CosmosRecovered {
	ctx, pool := procCtx()
	l := plug.NewLog()
	reg := plug.Registry(l)
	nv := cosmosdb.NewVerifVaultSharing(r.Vault, reg)
	out := &CosmosRecovered{Vault: nv, Log: l}
	for _, id := range r.IDs {
		p, err := nv.Vault.Read(ctx, id)
		if err != nil {
			out.Snapshots = append(out.Snapshots, nil)
			continue
		}
		out.Snapshots = append(out.Snapshots, spec.View(p))
	}
	ws, err := coercion.New(ctx, reg, nv.Vault)
	if err != nil {
		out.NewErr = err.Error()
		return out
	}
	for _, id := range r.IDs {
		// progress of this process only: its plugin events plus the client writes of its vault
		p, _, ok := eng.WaitPlanF(ws, id, watchdog, func() int64 { n, _ := nv.Writes(); return n + l.Novel() })
		out.Returned = append(out.Returned, ok)
		if !ok && out.Dump == "" {
			out.Dump = liveDump(label)
		}
		if ok && p != nil {
			out.Finals = append(out.Finals, spec.View(p))
		} else {
			out.Finals = append(out.Finals, nil)
		}
	}
	eng.Quiesce(l, 15*time.Millisecond, 5*time.Second)
	allReturned := true
	for _, ok := range out.Returned {
		allReturned = allReturned && ok
	}
	if allReturned {
		closePool(pool) // nothing of this process is running any more
	}
	out.Events = l.Snapshot()
	// plugin events are attributed by the logical plan name carried in the request
	idOf := map[string]string{}
	for i, ps := range r.Specs {
		idOf[ps.Name] = r.IDs[i].String()
	}
	for i := range out.Events {
		if out.Events[i].Kind == "begin" || out.Events[i].Kind == "end" {
			if id, ok := idOf[out.Events[i].Plan]; ok {
				out.Events[i].PlanID = id
			}
		}
	}
	return out
}

// closePool stops the permanent workers of a finished process's pool (best effort, bounded).
func closePool(p *worker.Pool) {
	c, cancel := stdctx.WithTimeout(stdctx.Background(), 2*time.Second)
	defer cancel()
	p.Close(c)
}

// liveDump returns the stacks (grouped, with counts) of the goroutines labelled as belonging to the given process.
func liveDump(label string) string {
	var b bytes.Buffer
	pprof.Lookup("goroutine").WriteTo(&b, 1)
	var keep []string
	for _, g := range strings.Split(b.String(), "\n\n") {
		if !strings.Contains(g, "\"vproc\":\""+label+"\"") {
			continue
		}
		var lines []string
		for _, l := range strings.Split(g, "\n") {
			if i := strings.Index(l, "\t"); i >= 0 && strings.HasPrefix(l, "#") {
				f := strings.Fields(l)
				if len(f) >= 3 {
					l = "  " + f[2] + " " + f[len(f)-1]
				}
			}
			lines = append(lines, l)
		}
		if len(lines) > 18 {
			lines = lines[:18]
		}
		keep = append(keep, strings.Join(lines, "\n"))
	}
	return strings.Join(keep, "\n\n")
}
