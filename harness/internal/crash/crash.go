// Package crash: crash model = prefix of the committed write sequence (DESIGN §C09). A plan is run once
// to the end on an in-memory sqlite vault created with WithCapture; for a crash point k a fresh vault is
// built from the creation inserts plus the first k captured updates, and a new Workstream recovers on it.
package crash

import (
	"encoding/json"
	"fmt"
	"time"

	"github.com/element-of-surprise/coercion"
	"github.com/element-of-surprise/coercion/plugins/registry"
	"github.com/element-of-surprise/coercion/workflow/context"
	"github.com/element-of-surprise/coercion/workflow/storage/sqlite"
	"github.com/google/uuid"
	zsqlite "zombiezen.com/go/sqlite"
	"zombiezen.com/go/sqlite/sqlitex"

	"verifharness/internal/eng"
	"verifharness/internal/plug"
	"verifharness/internal/rec"
	"verifharness/internal/spec"
)

// Captured is an uninterrupted, captured execution of one plan.
type Captured struct {
	Spec   *spec.Plan
	Cap    *sqlite.CaptureStmts
	ID     uuid.UUID
	Ref    *spec.PlanView // final plan of the uninterrupted run
	Events []plug.Event
	NW     int // number of captured update statements
}

// RunCaptured executes ps once, uninterrupted.
func RunCaptured(ps *spec.Plan, waitTimeout time.Duration) (*Captured, error) {
	ctx := context.Background()
	l := plug.NewLog()
	reg := plug.Registry(l)
	cp := &sqlite.CaptureStmts{}
	v, err := sqlite.New(ctx, "", reg, sqlite.WithInMemory(), sqlite.WithCapture(cp))
	if err != nil {
		return nil, err
	}
	// a recording vault (no delays) puts a "write" event after every storage write into the same log as the
	// plugin events; without concurrent writers the k-th write event is the k-th captured statement
	ws, err := coercion.New(ctx, reg, rec.New(v, l, 1, 0))
	if err != nil {
		return nil, err
	}
	id, err := ws.Submit(ctx, ps.Build())
	if err != nil {
		return nil, fmt.Errorf("submit: %w", err)
	}
	if err := ws.Start(ctx, id); err != nil {
		return nil, fmt.Errorf("start: %w", err)
	}
	p, werr, ok := eng.WaitPlan(ws, id, waitTimeout)
	if !ok {
		return nil, fmt.Errorf("uninterrupted run did not finish within %v", waitTimeout)
	}
	if werr != nil || p == nil {
		return nil, fmt.Errorf("wait: %v", werr)
	}
	eng.Quiesce(l, 15*time.Millisecond, 5*time.Second)
	return &Captured{Spec: ps, Cap: cp, ID: id, Ref: spec.View(p), Events: l.Snapshot(), NW: cp.Len()}, nil
}

// Layer is a captured statement list with the prefix length to replay.
type Layer struct {
	Cap *sqlite.CaptureStmts
	K   int
}

// Restored is a fresh vault holding the durable state after a crash.
type Restored struct {
	Log   *plug.Log
	Vault *sqlite.Vault
	Cap   *sqlite.CaptureStmts // captures the writes of the recovery run (for second crashes)
	Reg   *registry.Register
}

// Restore builds a fresh in-memory vault from the inserts of the first layer plus the prefix of every
// layer. capture != nil records what the recovery run writes.
func Restore(layers []Layer, capture *sqlite.CaptureStmts) (*Restored, error) {
	ctx := context.Background()
	l := plug.NewLog()
	reg := plug.Registry(l)
	opts := []sqlite.Option{sqlite.WithInMemory()}
	if capture != nil {
		opts = append(opts, sqlite.WithCapture(capture))
	}
	v, err := sqlite.New(ctx, "", reg, opts...)
	if err != nil {
		return nil, err
	}
	conn, err := v.Pool().Take(ctx)
	if err != nil {
		return nil, err
	}
	defer v.Pool().Put(conn)
	for li, ly := range layers {
		if li == 0 || len(ly.Cap.Inserts()) > 0 {
			for _, ins := range ly.Cap.Inserts() {
				ins := ins
				s, err := ins.Prepare(conn)
				if err != nil {
					return nil, err
				}
				if _, err := s.Step(); err != nil {
					return nil, fmt.Errorf("replay insert: %w", err)
				}
			}
		}
		for x := 0; x < ly.K; x++ {
			st := ly.Cap.Stmt(x)
			s, err := st.Prepare(conn)
			if err != nil {
				return nil, err
			}
			if _, err := s.Step(); err != nil {
				return nil, fmt.Errorf("replay update %d: %w", x, err)
			}
		}
	}
	l.Life = 2
	return &Restored{Log: l, Vault: v, Cap: capture, Reg: reg}, nil
}

// Snapshot reads the stored plan (the durable state S_k) without recovery.
func (r *Restored) Snapshot(id uuid.UUID) (*spec.PlanView, error) {
	p, err := r.Vault.Read(context.Background(), id)
	if err != nil {
		return nil, err
	}
	return spec.View(p), nil
}

// Recovery is the observation of one recovery run.
type Recovery struct {
	Returned bool // Wait returned within the watchdog
	Final    *spec.PlanView
	Events   []plug.Event
	NewErr   string
	WaitErr  string
}

// Recover constructs a normal Workstream on the restored vault and waits for plan id.
func (r *Restored) Recover(id uuid.UUID, watchdog time.Duration, opts ...coercion.Option) *Recovery {
	ctx := context.Background()
	out := &Recovery{}
	// through a recording vault: the writes of the recovery are events of the log too
	ws, err := coercion.New(ctx, r.Reg, rec.New(r.Vault, r.Log, 1, 0), opts...)
	if err != nil {
		out.NewErr = err.Error()
		return out
	}
	p, werr, ok := eng.WaitPlanL(ws, id, watchdog, r.Log)
	out.Returned = ok
	if ok {
		if werr != nil {
			out.WaitErr = werr.Error()
		}
		out.Final = spec.View(p)
		eng.Quiesce(r.Log, 10*time.Millisecond, 5*time.Second)
	}
	out.Events = r.Log.Snapshot()
	// Sequences that recovery finishes inside fixBlock run on context.Background(): the plugin sees no plan id.
	// There is exactly one running plan per restored store here, so such invocations belong to it.
	nilID := uuid.Nil.String()
	for i := range out.Events {
		if out.Events[i].PlanID == nilID && (out.Events[i].Kind == "begin" || out.Events[i].Kind == "end") {
			out.Events[i].PlanID = id.String()
		}
	}
	return out
}

// StateSig returns a signature of the durable state of the whole store: per row of every table its id, status and
// (for actions) the number of stored attempts and whether each has an error / an end time. Two stores with the same signature are recovered the same way (recovery
// looks at statuses and attempts, not at the exact times).
func StateSig(v *sqlite.Vault) (string, error) {
	ctx := context.Background()
	conn, err := v.Pool().Take(ctx)
	if err != nil {
		return "", err
	}
	defer v.Pool().Put(conn)
	h := uint64(1469598103934665603)
	mix := func(s string) {
		for i := 0; i < len(s); i++ {
			h ^= uint64(s[i])
			h *= 1099511628211
		}
		h ^= 0xff
		h *= 1099511628211
	}
	for _, q := range []string{
		"SELECT id, state_status, state_end != 0 AS e, '' AS a FROM plans ORDER BY id",
		"SELECT id, state_status, 0 AS e, '' AS a FROM blocks ORDER BY id",
		"SELECT id, state_status, 0 AS e, '' AS a FROM checks ORDER BY id",
		"SELECT id, state_status, 0 AS e, '' AS a FROM sequences ORDER BY id",
		"SELECT id, state_status, 0 AS e, coalesce(attempts, '') AS a FROM actions ORDER BY id",
	} {
		err := sqlitex.Execute(conn, q, &sqlitex.ExecOptions{ResultFunc: func(stmt *zsqlite.Stmt) error {
			mix(stmt.ColumnText(0))
			mix(fmt.Sprint(stmt.ColumnInt64(1), stmt.ColumnInt64(2)))
			mix(attemptsClass(stmt.ColumnText(3)))
			return nil
		}})
		if err != nil {
			return "", err
		}
	}
	return fmt.Sprintf("%016x", h), nil
}

// Apply executes update number x of cap on the vault (used to step through second-crash states cheaply).
func (r *Restored) Apply(cap *sqlite.CaptureStmts, x int) error {
	ctx := context.Background()
	conn, err := r.Vault.Pool().Take(ctx)
	if err != nil {
		return err
	}
	defer r.Vault.Pool().Put(conn)
	st := cap.Stmt(x)
	s, err := st.Prepare(conn)
	if err != nil {
		return err
	}
	_, err = s.Step()
	return err
}

// attemptsClass abstracts the stored attempts of an action (a JSON array of JSON-encoded attempts) to what recovery
// looks at: how many there are, and per attempt whether it has an error and an end time.
func attemptsClass(blob string) string {
	if blob == "" {
		return "0"
	}
	var raws [][]byte
	if err := json.Unmarshal([]byte(blob), &raws); err != nil {
		return "?" + blob
	}
	out := fmt.Sprint(len(raws))
	for _, raw := range raws {
		var a struct {
			Err any
			End time.Time
		}
		if err := json.Unmarshal(raw, &a); err != nil {
			return "?" + blob
		}
		out += fmt.Sprintf("|%v,%v", a.Err != nil, !a.End.IsZero())
	}
	return out
}
