// Package plug holds the scripted plugins and the single event log shared by the plugin boundary,
// the vault boundary and the API boundary (DESIGN §1.4/§1.5).
package plug

import (
	"fmt"
	"strconv"
	"sync"
	"sync/atomic"
	"time"

	"github.com/element-of-surprise/coercion/plugins"
	"github.com/element-of-surprise/coercion/plugins/registry"
	wctx "github.com/element-of-surprise/coercion/workflow/context"
	"github.com/gostdlib/base/retry/exponential"
)

// Outcomes of one scripted invocation.
const (
	OK        = "ok"
	Transient = "transient"
	Permanent = "permanent"
	WrongType = "wrongtype"
	Overrun   = "overrun" // wait for ctx.Done(), then return ok (late)
	// WrongTypeErr returns a response of the wrong type together with a retryable error.
	WrongTypeErr = "wrongtype_err"
	// WrongPtr returns the response with the wrong pointer-ness (*Resp for a plugin declaring Resp and vice versa).
	WrongPtr = "wrongtype_ptr"
)

// Step is the script of one invocation.
type Step struct {
	Out     string `json:"o"`
	SleepUS int    `json:"s,omitempty"`
	// WaitTag/WaitN: before returning, wait until tag WaitTag of the same plan has been invoked WaitN
	// more times than it had been when this invocation began (bounded progress rendezvous).
	WaitTag string `json:"wt,omitempty"`
	WaitN   int    `json:"wn,omitempty"`
}

// Req is the request of every scripted plugin. The request is the script, so it survives storage and crashes.
type Req struct {
	Plan  string // logical plan name
	Tag   string // logical address, unique in the plan
	Steps []Step // outcome of the n-th invocation in this process (last repeats)
	// Steps2, if set, replaces Steps in a process that came up after a crash (Log.Life >= 2): a check that failed
	// before the crash and passes after the restart, or the other way round.
	Steps2 []Step `json:",omitempty"`
}

// Resp carries a unique token identifying the invocation that produced it.
type Resp struct {
	Tok string
}

// WrongResp is what a "wrongtype" invocation returns.
type WrongResp struct {
	Junk string
}

// Event is one entry of the merged log.
type Event struct {
	Seq  int    `json:"q"`
	Kind string `json:"k"` // begin end write create delete read call ret mark

	PlanID string `json:"pid,omitempty"`
	Plan   string `json:"p,omitempty"`
	Tag    string `json:"t,omitempty"`
	ActID  string `json:"aid,omitempty"`
	N      int    `json:"n,omitempty"`
	Out    string `json:"o,omitempty"`
	Cancel bool   `json:"cx,omitempty"`
	RdvTO  bool   `json:"rto,omitempty"`

	// vault events
	Obj    string `json:"ob,omitempty"` // plan block checks seq action
	ObjID  string `json:"oid,omitempty"`
	Status int    `json:"st,omitempty"`
	NAtt   int    `json:"na,omitempty"`
	LastOK bool   `json:"lok,omitempty"` // last attempt has no error
	Reason int    `json:"rs,omitempty"`
	HasEnd bool   `json:"he,omitempty"`
	VErr   string `json:"ve,omitempty"`

	// api events
	API    string `json:"api,omitempty"`
	Client int    `json:"cl,omitempty"`
	Err    string `json:"err,omitempty"`
}

type ikey struct{ plan, tag string }

// Log is the one ordered event log. All appends happen under one mutex, so the order is a total order
// consistent with real time at the points where the events are appended.
type Log struct {
	mu     sync.Mutex
	cond   *sync.Cond
	evs    []Event
	counts map[ikey]int
	inflt  int
	novel  map[string]struct{}
	progress atomic.Int64
	// Life is 2 for the log of a process that recovers what an earlier process left behind (0/1: first process).
	Life int
	// Hook, if set, is called under the mutex for every appended event (used by kill-at-k fault modes
	// and plugin journals).
	Hook func(e *Event)
}

func NewLog() *Log {
	l := &Log{counts: map[ikey]int{}}
	l.cond = sync.NewCond(&l.mu)
	return l
}

// Append adds an event and returns its sequence number.
func (l *Log) Append(e Event) int {
	l.mu.Lock()
	defer l.mu.Unlock()
	return l.appendLocked(e)
}

// Progress counts, over every Log of the process, the events that are NEW in kind: the first begin / first end of
// an action, an object written in a status it was not written in before, an API return. Repetitions (a continuous
// check being re-run, the same status written again) do not count. Watchdogs decide "hung" on this counter standing
// still, never on wall-clock alone: a slow machine keeps making progress, a hung engine does not - also not one whose
// continuous checks keep ticking.
var Progress atomic.Int64

func (l *Log) appendLocked(e Event) int {
	e.Seq = len(l.evs)
	l.evs = append(l.evs, e)
	var key string
	switch e.Kind {
	case "begin", "end":
		key = e.Kind + "|" + e.PlanID + "|" + e.Plan + "|" + e.Tag
	case "write", "create":
		key = e.Kind + "|" + e.ObjID + "|" + strconv.Itoa(e.Status) + "|" + strconv.Itoa(e.NAtt)
	default:
		key = e.Kind + "|" + e.API + "|" + e.PlanID
	}
	if l.novel == nil {
		l.novel = map[string]struct{}{}
	}
	if _, seen := l.novel[key]; !seen {
		l.novel[key] = struct{}{}
		l.progress.Add(1)
		Progress.Add(1)
	}
	if l.Hook != nil {
		l.Hook(&l.evs[len(l.evs)-1])
	}
	return e.Seq
}

// Novel returns this log's share of Progress: the number of its events that were new in kind.
func (l *Log) Novel() int64 { return l.progress.Load() }

// Snapshot returns a copy of the events so far.
func (l *Log) Snapshot() []Event {
	l.mu.Lock()
	defer l.mu.Unlock()
	out := make([]Event, len(l.evs))
	copy(out, l.evs)
	return out
}

// Len returns the number of events so far.
func (l *Log) Len() int {
	l.mu.Lock()
	defer l.mu.Unlock()
	return len(l.evs)
}

// InFlight returns the number of plugin invocations currently executing.
func (l *Log) InFlight() int {
	l.mu.Lock()
	defer l.mu.Unlock()
	return l.inflt
}

// Count returns how often tag of plan (plan id string) has been invoked.
func (l *Log) Count(planID, tag string) int {
	l.mu.Lock()
	defer l.mu.Unlock()
	return l.counts[ikey{planID, tag}]
}

func (l *Log) end(planID, plan, tag, actID string, n int, out string, cancelled, rdvTO bool) {
	l.mu.Lock()
	defer l.mu.Unlock()
	l.inflt--
	l.appendLocked(Event{Kind: "end", PlanID: planID, Plan: plan, Tag: tag, ActID: actID, N: n, Out: out, Cancel: cancelled, RdvTO: rdvTO})
	l.cond.Broadcast()
}

// waitCount blocks until counts[planID,tag] >= want or the deadline passes. Returns false on timeout.
func (l *Log) waitCount(planID, tag string, want int, d time.Duration) bool {
	deadline := time.Now().Add(d)
	stop := make(chan struct{})
	defer close(stop)
	go func() {
		t := time.NewTicker(20 * time.Millisecond)
		defer t.Stop()
		for {
			select {
			case <-stop:
				return
			case <-t.C:
				l.cond.Broadcast()
			}
		}
	}()
	l.mu.Lock()
	defer l.mu.Unlock()
	for l.counts[ikey{planID, tag}] < want {
		if time.Now().After(deadline) {
			return false
		}
		l.cond.Wait()
	}
	return true
}

// Plugin is a scripted plugin.
type Plugin struct {
	PName   string
	Check   bool
	Pointer bool // request/response are *Req / *Resp
	L       *Log
	// RdvTimeout bounds every rendezvous / overrun wait (a watchdog, not a verdict).
	RdvTimeout time.Duration
}

func (p *Plugin) Name() string { return p.PName }

func (p *Plugin) Execute(ctx wctx.Context, req any) (any, *plugins.Error) {
	var r Req
	switch v := req.(type) {
	case Req:
		r = v
	case *Req:
		if v == nil {
			return nil, &plugins.Error{Message: "nil request", Permanent: true}
		}
		r = *v
	default:
		return nil, &plugins.Error{Message: fmt.Sprintf("bad request type %T", req), Permanent: true}
	}
	planID := wctx.PlanID(ctx).String()
	actID := wctx.ActionID(ctx).String()

	// base count of the rendezvous tag is taken at begin, under the same lock as the begin event.
	var st Step
	p.L.mu.Lock()
	k := ikey{planID, r.Tag}
	p.L.counts[k]++
	n := p.L.counts[k]
	steps := r.Steps
	if p.L.Life >= 2 && len(r.Steps2) > 0 {
		steps = r.Steps2
	}
	if len(steps) > 0 {
		if n-1 < len(steps) {
			st = steps[n-1]
		} else {
			st = steps[len(steps)-1]
		}
	} else {
		st = Step{Out: OK}
	}
	base := 0
	if st.WaitTag != "" {
		base = p.L.counts[ikey{planID, st.WaitTag}]
	}
	p.L.inflt++
	p.L.appendLocked(Event{Kind: "begin", PlanID: planID, Plan: r.Plan, Tag: r.Tag, ActID: actID, N: n})
	p.L.cond.Broadcast()
	p.L.mu.Unlock()

	if st.SleepUS > 0 {
		time.Sleep(time.Duration(st.SleepUS) * time.Microsecond)
	}
	to := p.RdvTimeout
	if to == 0 {
		to = 8 * time.Second
	}
	rdvTO := false
	if st.WaitTag != "" {
		if !p.L.waitCount(planID, st.WaitTag, base+st.WaitN, to) {
			rdvTO = true
		}
	}
	cancelled := false
	if st.Out == Overrun {
		select {
		case <-ctx.Done():
			cancelled = true
		case <-time.After(to):
			rdvTO = true
		}
	} else {
		select {
		case <-ctx.Done():
			cancelled = true
		default:
		}
	}

	p.L.end(planID, r.Plan, r.Tag, actID, n, st.Out, cancelled, rdvTO)

	tok := fmt.Sprintf("%s#%d", r.Tag, n)
	switch st.Out {
	case OK, Overrun:
		if p.Pointer {
			return &Resp{Tok: tok}, nil
		}
		return Resp{Tok: tok}, nil
	case Transient:
		return nil, &plugins.Error{Code: 7, Message: "T:" + tok, Permanent: false}
	case Permanent:
		return nil, &plugins.Error{Code: 9, Message: "P:" + tok, Permanent: true, Wrapped: &plugins.Error{Code: 3, Message: "inner:" + tok}}
	case WrongType:
		return WrongResp{Junk: tok}, nil
	case WrongTypeErr:
		return WrongResp{Junk: tok}, &plugins.Error{Code: 7, Message: "T:" + tok, Permanent: false}
	case WrongPtr:
		if p.Pointer {
			return Resp{Tok: tok}, nil
		}
		return &Resp{Tok: tok}, nil
	}
	return nil, &plugins.Error{Message: "bad script outcome " + st.Out, Permanent: true}
}

func (p *Plugin) ValidateReq(req any) error {
	if p.Pointer {
		if v, ok := req.(*Req); ok && v != nil {
			return nil
		}
		return fmt.Errorf("plugin %s wants *plug.Req, got %T", p.PName, req)
	}
	if _, ok := req.(Req); ok {
		return nil
	}
	return fmt.Errorf("plugin %s wants plug.Req, got %T", p.PName, req)
}

func (p *Plugin) Request() any {
	if p.Pointer {
		return &Req{}
	}
	return Req{}
}

func (p *Plugin) Response() any {
	if p.Pointer {
		return &Resp{}
	}
	return Resp{}
}

func (p *Plugin) IsCheck() bool { return p.Check }

func (p *Plugin) RetryPolicy() exponential.Policy {
	return exponential.Policy{InitialInterval: time.Millisecond, Multiplier: 1.1, MaxInterval: 2 * time.Millisecond}
}

func (p *Plugin) Init() error { return nil }

// Plugin names.
const (
	Act  = "act"
	Chk  = "chk"
	ActP = "actp"
	ChkP = "chkp"
)

// Registry returns a fresh registry with the four scripted plugins wired to l.
func Registry(l *Log) *registry.Register {
	reg := registry.New()
	reg.MustRegister(&Plugin{PName: Act, L: l})
	reg.MustRegister(&Plugin{PName: Chk, Check: true, L: l})
	reg.MustRegister(&Plugin{PName: ActP, Pointer: true, L: l})
	reg.MustRegister(&Plugin{PName: ChkP, Check: true, Pointer: true, L: l})
	return reg
}

// ReqOf extracts the scripted request of an action request value (value or pointer flavour).
func ReqOf(req any) (Req, bool) {
	switch v := req.(type) {
	case Req:
		return v, true
	case *Req:
		if v != nil {
			return *v, true
		}
	}
	return Req{}, false
}

// TokOf extracts the token from a response value.
func TokOf(resp any) (string, bool) {
	switch v := resp.(type) {
	case Resp:
		return v.Tok, true
	case *Resp:
		if v != nil {
			return v.Tok, true
		}
	}
	return "", false
}
