// Package eng runs one engine case: 1..n plans on one Workstream over a recording vault on an in-memory
// sqlite store, with scripted plugins; it returns the merged event log and the observed plans.
package eng

import (
	"fmt"
	"github.com/element-of-surprise/coercion/workflow/storage/cosmosdb"
	"sync"
	"sync/atomic"
	"time"

	"github.com/element-of-surprise/coercion"
	"github.com/element-of-surprise/coercion/plugins/registry"
	"github.com/element-of-surprise/coercion/workflow"
	"github.com/element-of-surprise/coercion/workflow/context"
	"github.com/element-of-surprise/coercion/workflow/storage"
	"github.com/element-of-surprise/coercion/workflow/storage/sqlite"
	"github.com/element-of-surprise/coercion/workflow/utils/walk"
	"github.com/google/uuid"

	"verifharness/internal/plug"
	"verifharness/internal/rec"
	"verifharness/internal/spec"
)

// Case is one engine execution.
type Case struct {
	Plans        []spec.Plan `json:"plans"`
	VaultDelayUS int         `json:"vault_delay_us"`
	VaultSeed    int64       `json:"vault_seed"`
	Poll         bool        `json:"poll,omitempty"`
	// DirectCreate stores the plan through vault.Create instead of Submit (only way to get action
	// timeouts below Submit's 5 s minimum).
	DirectCreate bool `json:"direct_create,omitempty"`
	// StaggerUS: delay between Start calls of the plans.
	StaggerUS int `json:"stagger_us,omitempty"`
	// RacingStarts > 1: every plan is started by that many goroutines at once (behind a barrier) instead of once.
	RacingStarts int `json:"racing_starts,omitempty"`
	// CancelStartCtx: Start is called with a context that is cancelled as soon as Start has returned.
	CancelStartCtx bool `json:"cancel_start_ctx,omitempty"`
	// OnWaited, if set, is called with a snapshot of the run as soon as every Wait has returned (before the
	// observation window): lets the caller journal a verdict before a late panic can kill the process.
	OnWaited func(run *Run) `json:"-"`
	// Vault: "" = in-memory sqlite, "cosmos" = cosmosdb vault over the fake client.
	Vault string `json:"vault,omitempty"`
	// WaitTimeoutMS is the watchdog on Wait (>= 100x nominal).
	WaitTimeoutMS int `json:"wait_timeout_ms"`
	// GraceMS is the observation window after quiescence.
	GraceMS int `json:"grace_ms"`
}

// PlanRun is what was observed for one plan.
type PlanRun struct {
	Spec      *spec.Plan     `json:"-"`
	ID        string         `json:"id"`
	SubmitErr string         `json:"submit_err,omitempty"`
	StartErr  string         `json:"start_err,omitempty"`
	WaitErr   string         `json:"wait_err,omitempty"`
	WaitRet   bool           `json:"wait_ret"`
	WaitSeq   int            `json:"wait_seq"` // seq number of the Wait-return event
	P0        *spec.PlanView `json:"p0,omitempty"`
	P1        *spec.PlanView `json:"p1,omitempty"`
	P1Err     string         `json:"p1_err,omitempty"`
	Stored    *spec.PlanView `json:"-"` // plan as read right after submit
}

// Poll observation: a regress seen by one polling reader.
type PollRegress struct {
	Plan string `json:"plan"`
	Addr string `json:"addr"`
	From int    `json:"from"`
	To   int    `json:"to"`
}

// Run is the result of a case.
type Run struct {
	Plans     []PlanRun     `json:"plans"`
	Events    []plug.Event  `json:"-"`
	GraceSeq  int           `json:"grace_seq"` // log length when the grace window ended
	Quiesced  bool          `json:"quiesced"`
	PollReads int           `json:"poll_reads"`
	Regress   []PollRegress `json:"regress,omitempty"`
	PollErrs  int           `json:"poll_errs,omitempty"`
	Err       string        `json:"err,omitempty"` // harness-level failure (inconclusive)
}

// Env is a live engine environment, exposed so other checks (C11, C12) can drive the API themselves.
type Env struct {
	Log  *plug.Log
	Reg  *registry.Register
	Base storage.Vault
	Rec  *rec.Vault
	WS   *coercion.Workstream
}

// NewEnv builds a fresh in-memory environment.
func NewEnv(ctx context.Context, vaultSeed int64, delayUS int, opts ...coercion.Option) (*Env, error) {
	return NewEnvOn(ctx, "", vaultSeed, delayUS, opts...)
}

// NewEnvOn: kind "" = in-memory sqlite, "cosmos" = the cosmosdb vault over the package's fake client (verif hook).
func NewEnvOn(ctx context.Context, kind string, vaultSeed int64, delayUS int, opts ...coercion.Option) (*Env, error) {
	l := plug.NewLog()
	reg := plug.Registry(l)
	var base storage.Vault
	if kind == "cosmos" {
		base = cosmosdb.NewVerifVault(reg).Vault
	} else {
		sv, err := sqlite.New(ctx, "", reg, sqlite.WithInMemory())
		if err != nil {
			return nil, fmt.Errorf("sqlite.New: %w", err)
		}
		base = sv
	}
	rv := rec.New(base, l, vaultSeed, delayUS)
	ws, err := coercion.New(ctx, reg, rv, opts...)
	if err != nil {
		return nil, fmt.Errorf("coercion.New: %w", err)
	}
	return &Env{Log: l, Reg: reg, Base: base, Rec: rv, WS: ws}, nil
}

type defaulter interface{ Defaults() }

// DirectCreate performs what Submit does except validation (so that small timeouts are possible).
func DirectCreate(ctx context.Context, reg *registry.Register, v storage.Vault, p *workflow.Plan) (uuid.UUID, error) {
	for item := range walk.Plan(p) {
		if item.Value.Type() == workflow.OTAction {
			a := item.Action()
			if a.Timeout == 0 {
				a.Timeout = 30 * time.Second
			}
		}
		if d, ok := item.Value.(defaulter); ok {
			d.Defaults()
		}
	}
	p.SubmitTime = time.Now().UTC()
	if err := v.Create(ctx, p); err != nil {
		return uuid.Nil, err
	}
	return p.ID, nil
}

func errS(err error) string {
	if err == nil {
		return ""
	}
	return err.Error()
}

// WaitPlan waits with a watchdog. ok=false means the watchdog fired.
// CappedWaits counts the waits that were given up while the engine was still making progress (slow, not hung):
// the framework turns a case in which that happened into an inconclusive one.
var CappedWaits atomic.Int64

// WaitPlan waits for Wait(id) to return. "Hung" is decided on progress, not on wall-clock: ok is false when
// plug.Progress (events that are new in kind, see there) plus the optional extra counter has not moved for d, or when
// 8*d have passed with progress still being made (then CappedWaits is bumped too: inconclusive, not hung).
func WaitPlan(ws *coercion.Workstream, id uuid.UUID, d time.Duration) (p *workflow.Plan, err error, ok bool) {
	return WaitPlanP(ws, id, d, nil)
}

// WaitPlanL is WaitPlan with the progress of ONE log (one simulated process) instead of the process-wide counter: other
// workers of the same case making progress must not hide a process that stands still.
func WaitPlanL(ws *coercion.Workstream, id uuid.UUID, d time.Duration, l *plug.Log) (p *workflow.Plan, err error, ok bool) {
	return waitPlan(ws, id, d, l.Novel)
}

func WaitPlanP(ws *coercion.Workstream, id uuid.UUID, d time.Duration, extra func() int64) (p *workflow.Plan, err error, ok bool) {
	return waitPlan(ws, id, d, func() int64 {
		n := plug.Progress.Load()
		if extra != nil {
			n += extra()
		}
		return n
	})
}

// WaitPlanF: the caller supplies the progress counter.
func WaitPlanF(ws *coercion.Workstream, id uuid.UUID, d time.Duration, progress func() int64) (p *workflow.Plan, err error, ok bool) {
	return waitPlan(ws, id, d, progress)
}

func waitPlan(ws *coercion.Workstream, id uuid.UUID, d time.Duration, progress func() int64) (p *workflow.Plan, err error, ok bool) {
	type res struct {
		p   *workflow.Plan
		err error
	}
	ch := make(chan res, 1)
	go func() {
		p, err := ws.Wait(context.Background(), id)
		ch <- res{p, err}
	}()
	start := time.Now()
	last, lastChange := progress(), start
	tick := time.NewTicker(100 * time.Millisecond)
	defer tick.Stop()
	for {
		select {
		case r := <-ch:
			return r.p, r.err, true
		case <-tick.C:
		}
		now := time.Now()
		if cur := progress(); cur != last {
			last, lastChange = cur, now
		}
		if now.Sub(lastChange) >= d {
			return nil, nil, false
		}
		if now.Sub(start) >= 8*d {
			CappedWaits.Add(1)
			return nil, nil, false
		}
	}
}

// Quiesce waits until no plugin invocation is in flight and the log has been stable for stable, at
// most max. Returns whether quiescence was reached.
func Quiesce(l *plug.Log, stable, max time.Duration) bool {
	deadline := time.Now().Add(max)
	last := l.Len()
	lastChange := time.Now()
	for time.Now().Before(deadline) {
		time.Sleep(2 * time.Millisecond)
		n := l.Len()
		if n != last {
			last = n
			lastChange = time.Now()
			continue
		}
		if l.InFlight() == 0 && time.Since(lastChange) >= stable {
			return true
		}
	}
	return false
}

// Execute runs the case.
func Execute(c *Case) *Run {
	ctx := context.Background()
	run := &Run{}
	env, err := NewEnvOn(ctx, c.Vault, c.VaultSeed, c.VaultDelayUS)
	if err != nil {
		run.Err = err.Error()
		return run
	}
	l := env.Log
	ws := env.WS
	run.Plans = make([]PlanRun, len(c.Plans))
	ids := make([]uuid.UUID, len(c.Plans))
	for i := range c.Plans {
		pr := &run.Plans[i]
		pr.Spec = &c.Plans[i]
		wp := c.Plans[i].Build()
		var id uuid.UUID
		var err error
		if c.DirectCreate {
			id, err = DirectCreate(ctx, env.Reg, env.Rec, wp)
		} else {
			id, err = ws.Submit(ctx, wp)
		}
		pr.SubmitErr = errS(err)
		ids[i] = id
		pr.ID = id.String()
		if err == nil {
			if sp, err := env.Base.Read(ctx, id); err == nil {
				pr.Stored = spec.View(sp)
			}
		}
	}

	stopPoll := make(chan struct{})
	var pollWG sync.WaitGroup
	var pollMu sync.Mutex
	if c.Poll {
		for i := range c.Plans {
			if run.Plans[i].SubmitErr != "" {
				continue
			}
			pollWG.Add(1)
			go func(i int) {
				defer pollWG.Done()
				seen := map[string]int{}
				reads, errs := 0, 0
				var regress []PollRegress
				for {
					select {
					case <-stopPoll:
						pollMu.Lock()
						run.PollReads += reads
						run.PollErrs += errs
						run.Regress = append(run.Regress, regress...)
						pollMu.Unlock()
						return
					default:
					}
					p, err := ws.Plan(ctx, ids[i])
					if err != nil || p == nil {
						errs++
						time.Sleep(300 * time.Microsecond)
						continue
					}
					reads++
					v := spec.View(p)
					for _, o := range v.Objs {
						if o.Kind == "checks" || o.Kind == "plan" {
							continue
						}
						if o.Kind == "action" {
							if a, ok := spec.ParseTag(o.Addr); !ok || a.Kind != "seq" {
								continue
							}
						}
						if prev, ok := seen[o.Addr]; ok && (prev == spec.Completed || prev == spec.Failed) && o.Status != prev {
							regress = append(regress, PollRegress{Plan: c.Plans[i].Name, Addr: o.Addr, From: prev, To: o.Status})
						}
						seen[o.Addr] = o.Status
					}
					// throttle: the store has one pooled connection, an unthrottled reader starves the engine
					time.Sleep(3 * time.Millisecond)
				}
			}(i)
		}
	}

	var wg sync.WaitGroup
	wt := time.Duration(c.WaitTimeoutMS) * time.Millisecond
	if wt == 0 {
		wt = 60 * time.Second
	}
	for i := range c.Plans {
		pr := &run.Plans[i]
		if pr.SubmitErr != "" {
			continue
		}
		var err error
		switch {
		case c.RacingStarts > 1:
			// exactly one of the racers must win; the plan counts as started if any did
			gate := make(chan struct{})
			errs := make([]error, c.RacingStarts)
			var swg sync.WaitGroup
			for k := 0; k < c.RacingStarts; k++ {
				swg.Add(1)
				go func(k int) {
					defer swg.Done()
					<-gate
					errs[k] = ws.Start(ctx, ids[i])
				}(k)
			}
			close(gate)
			swg.Wait()
			err = errs[0]
			for _, e := range errs {
				if e == nil {
					err = nil
				}
			}
		case c.CancelStartCtx:
			sctx, cancel := context.WithCancel(ctx)
			err = ws.Start(sctx, ids[i])
			cancel()
		default:
			err = ws.Start(ctx, ids[i])
		}
		pr.StartErr = errS(err)
		l.Append(plug.Event{Kind: "ret", API: "Start", PlanID: pr.ID, Plan: c.Plans[i].Name, Err: errS(err)})
		if err != nil {
			continue
		}
		wg.Add(1)
		go func(i int) {
			defer wg.Done()
			pr := &run.Plans[i]
			p, err, ok := WaitPlanL(ws, ids[i], wt, l)
			if !ok {
				return
			}
			pr.WaitSeq = l.Append(plug.Event{Kind: "ret", API: "Wait", PlanID: pr.ID, Plan: c.Plans[i].Name, Err: errS(err)})
			pr.WaitRet = true
			pr.WaitErr = errS(err)
			if p != nil {
				pr.P0 = spec.View(p)
			}
		}(i)
		if c.StaggerUS > 0 {
			time.Sleep(time.Duration(c.StaggerUS) * time.Microsecond)
		}
	}
	wg.Wait()
	if c.OnWaited != nil {
		run.Events = l.Snapshot()
		run.GraceSeq = len(run.Events)
		c.OnWaited(run)
	}

	grace := time.Duration(c.GraceMS) * time.Millisecond
	if grace == 0 {
		grace = 20 * time.Millisecond
	}
	run.Quiesced = Quiesce(l, grace, 15*time.Second)
	close(stopPoll)
	pollWG.Wait()
	run.GraceSeq = l.Len()
	for i := range c.Plans {
		pr := &run.Plans[i]
		if pr.SubmitErr != "" {
			continue
		}
		p, err := env.Base.Read(ctx, ids[i])
		if err != nil {
			pr.P1Err = err.Error()
			continue
		}
		pr.P1 = spec.View(p)
	}
	run.Events = l.Snapshot()
	return run
}
