// Package spec is the JSON-serialisable description of a generated plan and its translation to a
// *workflow.Plan. Tags are logical addresses: "P.pre.0", "B1.S2.A0", "B0.cont.1".
package spec

import (
	"fmt"
	"strings"
	"time"

	"github.com/element-of-surprise/coercion/workflow"

	"verifharness/internal/plug"
)

type Action struct {
	Tag       string      `json:"tag"`
	Steps     []plug.Step `json:"steps"`
	Steps2    []plug.Step `json:"steps2,omitempty"` // script in a process that came up after a crash
	Retries   int         `json:"retries,omitempty"`
	TimeoutMS int         `json:"timeout_ms,omitempty"` // 0 = leave to Submit's default
	Pointer   bool        `json:"ptr,omitempty"`        // pointer-typed plugin flavour
}

type Checks struct {
	DelayUS int      `json:"delay_us"`
	Actions []Action `json:"actions"`
}

type Seq struct {
	Actions []Action `json:"actions"`
}

type Block struct {
	Bypass   *Checks `json:"bypass,omitempty"`
	Pre      *Checks `json:"pre,omitempty"`
	Cont     *Checks `json:"cont,omitempty"`
	Post     *Checks `json:"post,omitempty"`
	Deferred *Checks `json:"deferred,omitempty"`
	Seqs     []Seq   `json:"seqs"`
	Conc     int     `json:"conc"`
	Tol      int     `json:"tol"`
	EntryUS  int     `json:"entry_us,omitempty"`
	ExitUS   int     `json:"exit_us,omitempty"`
}

type Plan struct {
	Name     string  `json:"name"`
	Bypass   *Checks `json:"bypass,omitempty"`
	Pre      *Checks `json:"pre,omitempty"`
	Cont     *Checks `json:"cont,omitempty"`
	Post     *Checks `json:"post,omitempty"`
	Deferred *Checks `json:"deferred,omitempty"`
	Blocks   []Block `json:"blocks"`
}

// Group kinds in execution order.
var Kinds = []string{"bypass", "pre", "cont", "post", "deferred"}

func (p *Plan) Group(kind string) *Checks {
	switch kind {
	case "bypass":
		return p.Bypass
	case "pre":
		return p.Pre
	case "cont":
		return p.Cont
	case "post":
		return p.Post
	case "deferred":
		return p.Deferred
	}
	return nil
}

func (b *Block) Group(kind string) *Checks {
	switch kind {
	case "bypass":
		return b.Bypass
	case "pre":
		return b.Pre
	case "cont":
		return b.Cont
	case "post":
		return b.Post
	case "deferred":
		return b.Deferred
	}
	return nil
}

// EffConc is the concurrency the engine must honour (1 when unset or < 1).
func (b *Block) EffConc() int {
	if b.Conc < 1 {
		return 1
	}
	return b.Conc
}

// AssignTags fills in all tags from positions.
func (p *Plan) AssignTags() {
	set := func(c *Checks, prefix string) {
		if c == nil {
			return
		}
		for i := range c.Actions {
			c.Actions[i].Tag = fmt.Sprintf("%s.%d", prefix, i)
		}
	}
	for _, k := range Kinds {
		set(p.Group(k), "P."+k)
	}
	for bi := range p.Blocks {
		b := &p.Blocks[bi]
		for _, k := range Kinds {
			set(b.Group(k), fmt.Sprintf("B%d.%s", bi, k))
		}
		for si := range b.Seqs {
			for ai := range b.Seqs[si].Actions {
				b.Seqs[si].Actions[ai].Tag = fmt.Sprintf("B%d.S%d.A%d", bi, si, ai)
			}
		}
	}
}

// Addr is a parsed tag.
type Addr struct {
	Block int    // -1 = plan level
	Kind  string // bypass pre cont post deferred, or "seq"
	Seq   int    // sequence index when Kind == "seq"
	Idx   int    // action index
}

// Scope returns "P" or "B<i>".
func (a Addr) Scope() string {
	if a.Block < 0 {
		return "P"
	}
	return fmt.Sprintf("B%d", a.Block)
}

// Group returns e.g. "P.pre", "B0.cont", "B1.S2".
func (a Addr) Group() string {
	if a.Kind == "seq" {
		return fmt.Sprintf("B%d.S%d", a.Block, a.Seq)
	}
	return a.Scope() + "." + a.Kind
}

func ParseTag(tag string) (Addr, bool) {
	parts := strings.Split(tag, ".")
	if len(parts) != 3 {
		return Addr{}, false
	}
	var a Addr
	if parts[0] == "P" {
		a.Block = -1
	} else {
		if _, err := fmt.Sscanf(parts[0], "B%d", &a.Block); err != nil {
			return Addr{}, false
		}
	}
	if strings.HasPrefix(parts[1], "S") && a.Block >= 0 {
		if _, err := fmt.Sscanf(parts[1], "S%d", &a.Seq); err != nil {
			return Addr{}, false
		}
		a.Kind = "seq"
		if _, err := fmt.Sscanf(parts[2], "A%d", &a.Idx); err != nil {
			return Addr{}, false
		}
		return a, true
	}
	a.Kind = parts[1]
	if _, err := fmt.Sscanf(parts[2], "%d", &a.Idx); err != nil {
		return Addr{}, false
	}
	return a, true
}

func (p *Plan) action(a Action, check bool) *workflow.Action {
	req := plug.Req{Plan: p.Name, Tag: a.Tag, Steps: a.Steps, Steps2: a.Steps2}
	wa := &workflow.Action{Name: a.Tag, Descr: "action " + a.Tag, Retries: a.Retries}
	if a.TimeoutMS > 0 {
		wa.Timeout = time.Duration(a.TimeoutMS) * time.Millisecond
	}
	switch {
	case check && a.Pointer:
		wa.Plugin = plug.ChkP
		wa.Req = &req
	case check:
		wa.Plugin = plug.Chk
		wa.Req = req
	case a.Pointer:
		wa.Plugin = plug.ActP
		wa.Req = &req
	default:
		wa.Plugin = plug.Act
		wa.Req = req
	}
	return wa
}

func (p *Plan) checks(c *Checks) *workflow.Checks {
	if c == nil {
		return nil
	}
	wc := &workflow.Checks{Delay: time.Duration(c.DelayUS) * time.Microsecond}
	for _, a := range c.Actions {
		wc.Actions = append(wc.Actions, p.action(a, true))
	}
	return wc
}

// Build translates the spec into a fresh, unsubmitted *workflow.Plan.
func (p *Plan) Build() *workflow.Plan {
	wp := &workflow.Plan{Name: p.Name, Descr: "plan " + p.Name}
	wp.BypassChecks = p.checks(p.Bypass)
	wp.PreChecks = p.checks(p.Pre)
	wp.ContChecks = p.checks(p.Cont)
	wp.PostChecks = p.checks(p.Post)
	wp.DeferredChecks = p.checks(p.Deferred)
	for bi, b := range p.Blocks {
		wb := &workflow.Block{
			Name: fmt.Sprintf("B%d", bi), Descr: fmt.Sprintf("block %d", bi),
			Concurrency: b.Conc, ToleratedFailures: b.Tol,
			EntranceDelay: time.Duration(b.EntryUS) * time.Microsecond,
			ExitDelay:     time.Duration(b.ExitUS) * time.Microsecond,
		}
		wb.BypassChecks = p.checks(b.Bypass)
		wb.PreChecks = p.checks(b.Pre)
		wb.ContChecks = p.checks(b.Cont)
		wb.PostChecks = p.checks(b.Post)
		wb.DeferredChecks = p.checks(b.Deferred)
		for si, s := range b.Seqs {
			ws := &workflow.Sequence{Name: fmt.Sprintf("B%d.S%d", bi, si), Descr: fmt.Sprintf("seq %d.%d", bi, si)}
			for _, a := range s.Actions {
				ws.Actions = append(ws.Actions, p.action(a, false))
			}
			wb.Sequences = append(wb.Sequences, ws)
		}
		wp.Blocks = append(wp.Blocks, wb)
	}
	return wp
}

// ---- views of a stored/returned plan, keyed by logical address ----

type AttemptView struct {
	Tok     string `json:"tok,omitempty"`
	ErrMsg  string `json:"err,omitempty"`
	HasErr  bool   `json:"has_err"`
	Perm    bool   `json:"perm,omitempty"`
	HasResp bool   `json:"has_resp"`
	Start   int64  `json:"start"`
	End     int64  `json:"end"`
}

type ObjView struct {
	Kind     string        `json:"kind"` // plan block checks seq action
	Addr     string        `json:"addr"` // "P", "B0", "P.pre", "B0.S1", tag
	ID       string        `json:"id"`
	Status   int           `json:"status"`
	Start    int64         `json:"start"` // unix nanos, 0 if zero time
	End      int64         `json:"end"`
	Attempts []AttemptView `json:"attempts,omitempty"`
	Retries  int           `json:"retries,omitempty"`
}

type PlanView struct {
	ID     string              `json:"id"`
	Name   string              `json:"name"`
	Reason int                 `json:"reason"`
	Submit int64               `json:"submit"`
	Objs   []ObjView           `json:"objs"` // walk order
	idx    map[string]*ObjView `json:"-"`
}

func nanos(t time.Time) int64 {
	if t.IsZero() {
		return 0
	}
	return t.UnixNano()
}

func objView(kind, addr, id string, s *workflow.State) ObjView {
	o := ObjView{Kind: kind, Addr: addr, ID: id, Status: -1}
	if s != nil {
		o.Status = int(s.Status)
		o.Start = nanos(s.Start)
		o.End = nanos(s.End)
	}
	return o
}

func actionView(a *workflow.Action, fallback string) ObjView {
	tag := fallback
	if r, ok := plug.ReqOf(a.Req); ok {
		tag = r.Tag
	}
	o := objView("action", tag, a.ID.String(), a.State)
	o.Retries = a.Retries
	for _, at := range a.Attempts {
		if at == nil {
			o.Attempts = append(o.Attempts, AttemptView{ErrMsg: "<nil attempt>", HasErr: true})
			continue
		}
		av := AttemptView{Start: nanos(at.Start), End: nanos(at.End)}
		if at.Err != nil {
			av.HasErr = true
			av.ErrMsg = at.Err.Message
			av.Perm = at.Err.Permanent
		}
		if at.Resp != nil {
			av.HasResp = true
			if tok, ok := plug.TokOf(at.Resp); ok {
				av.Tok = tok
			} else {
				av.Tok = fmt.Sprintf("<%T>", at.Resp)
			}
		}
		o.Attempts = append(o.Attempts, av)
	}
	return o
}

// View flattens a plan in walk order. Addresses come from positions (not from names), so a storage
// layer that reorders objects is visible as a tag/address mismatch.
func View(p *workflow.Plan) *PlanView {
	if p == nil {
		return nil
	}
	v := &PlanView{ID: p.ID.String(), Name: p.Name, Reason: int(p.Reason), Submit: nanos(p.SubmitTime)}
	v.Objs = append(v.Objs, objView("plan", "P", p.ID.String(), p.State))
	addChecks := func(c *workflow.Checks, addr string) {
		if c == nil {
			return
		}
		v.Objs = append(v.Objs, objView("checks", addr, c.ID.String(), c.State))
		for i, a := range c.Actions {
			if a == nil {
				continue
			}
			v.Objs = append(v.Objs, actionView(a, fmt.Sprintf("%s.%d", addr, i)))
		}
	}
	addChecks(p.BypassChecks, "P.bypass")
	addChecks(p.PreChecks, "P.pre")
	addChecks(p.ContChecks, "P.cont")
	for bi, b := range p.Blocks {
		if b == nil {
			continue
		}
		ba := fmt.Sprintf("B%d", bi)
		v.Objs = append(v.Objs, objView("block", ba, b.ID.String(), b.State))
		addChecks(b.BypassChecks, ba+".bypass")
		addChecks(b.PreChecks, ba+".pre")
		addChecks(b.ContChecks, ba+".cont")
		for si, s := range b.Sequences {
			if s == nil {
				continue
			}
			sa := fmt.Sprintf("%s.S%d", ba, si)
			v.Objs = append(v.Objs, objView("seq", sa, s.ID.String(), s.State))
			for ai, a := range s.Actions {
				if a == nil {
					continue
				}
				// positional address; the tag stored in the request is compared separately
				o := actionView(a, "")
				pos := fmt.Sprintf("%s.A%d", sa, ai)
				if o.Addr != pos {
					o.Addr = pos + "!" + o.Addr // mismatch marker, caught by the order oracle
				}
				v.Objs = append(v.Objs, o)
			}
		}
		addChecks(b.PostChecks, ba+".post")
		addChecks(b.DeferredChecks, ba+".deferred")
	}
	addChecks(p.PostChecks, "P.post")
	addChecks(p.DeferredChecks, "P.deferred")
	return v
}

// Get returns the object at addr or nil.
func (v *PlanView) Get(addr string) *ObjView {
	if v == nil {
		return nil
	}
	if v.idx == nil {
		v.idx = map[string]*ObjView{}
		for i := range v.Objs {
			v.idx[v.Objs[i].Addr] = &v.Objs[i]
		}
	}
	return v.idx[addr]
}

// Status returns the status at addr, or -1 if absent.
func (v *PlanView) Status(addr string) int {
	o := v.Get(addr)
	if o == nil {
		return -1
	}
	return o.Status
}

// Status constants as ints.
const (
	NotStarted = int(workflow.NotStarted)
	Running    = int(workflow.Running)
	Completed  = int(workflow.Completed)
	Failed     = int(workflow.Failed)
	Stopped    = int(workflow.Stopped)
)

// Equal compares two views structurally (ids, statuses, times, reason, attempts).
func Equal(a, b *PlanView) (bool, string) {
	if a == nil || b == nil {
		return a == b, "nil view"
	}
	if a.ID != b.ID || a.Reason != b.Reason || a.Submit != b.Submit {
		return false, fmt.Sprintf("plan header differs: reason %d/%d submit %d/%d", a.Reason, b.Reason, a.Submit, b.Submit)
	}
	if len(a.Objs) != len(b.Objs) {
		return false, fmt.Sprintf("object count %d/%d", len(a.Objs), len(b.Objs))
	}
	for i := range a.Objs {
		x, y := a.Objs[i], b.Objs[i]
		if x.Kind != y.Kind || x.Addr != y.Addr || x.ID != y.ID || x.Status != y.Status || x.Start != y.Start || x.End != y.End || len(x.Attempts) != len(y.Attempts) {
			return false, fmt.Sprintf("%s %s: status %d/%d start %d/%d end %d/%d attempts %d/%d", x.Kind, x.Addr, x.Status, y.Status, x.Start, y.Start, x.End, y.End, len(x.Attempts), len(y.Attempts))
		}
		for j := range x.Attempts {
			if x.Attempts[j] != y.Attempts[j] {
				return false, fmt.Sprintf("%s attempt %d differs: %+v / %+v", x.Addr, j, x.Attempts[j], y.Attempts[j])
			}
		}
	}
	return true, ""
}
