package store

import (
	"errors"
	"fmt"
	"math/rand"
	"os"
	"syscall"
	"time"

	"github.com/element-of-surprise/coercion/plugins"
	"github.com/element-of-surprise/coercion/plugins/registry"
	"github.com/element-of-surprise/coercion/workflow"
	wctx "github.com/element-of-surprise/coercion/workflow/context"
	"github.com/google/uuid"
	"github.com/gostdlib/base/retry/exponential"

	"verifharness/internal/plug"
)

// RichReq is a request with nested structs, slices, maps, bytes and times.
type RichReq struct {
	S     string
	N     int64
	F     float64
	B     bool
	Bytes []byte
	When  time.Time
	List  []string
	M     map[string]int
	Inner RichInner
	Ptr   *RichInner
	Many  []RichInner
}

type RichInner struct {
	A string
	Z []int
}

type RichResp struct {
	Out   string
	Vals  []float64
	Inner *RichInner
	M     map[string]string
}

// BadReq is a request whose encoding can be made to fail or to kill the process (C14 fault injection).
type BadReq struct {
	Tag  string
	Mode string // "", "fail", "die"
}

// BadHook lets a test observe the marshal calls (e.g. to count positions).
var BadHook func(r BadReq)

func (b BadReq) MarshalJSON() ([]byte, error) {
	if BadHook != nil {
		BadHook(b)
	}
	switch b.Mode {
	case "fail":
		return nil, errors.New("injected encoding failure for " + b.Tag)
	case "die":
		syscall.Kill(os.Getpid(), syscall.SIGKILL)
		time.Sleep(time.Hour)
	}
	return []byte(fmt.Sprintf(`{"Tag":%q,"Mode":%q}`, b.Tag, b.Mode)), nil
}

func (b *BadReq) UnmarshalJSON(data []byte) error {
	var x struct{ Tag, Mode string }
	if err := jsonUnmarshal(data, &x); err != nil {
		return err
	}
	b.Tag, b.Mode = x.Tag, x.Mode
	return nil
}

// simple is a plugin with arbitrary request/response prototypes that never executes anything interesting.
type simple struct {
	name  string
	check bool
	req   func() any
	resp  func() any
}

func (p *simple) Name() string { return p.name }
func (p *simple) Execute(ctx wctx.Context, req any) (any, *plugins.Error) {
	return p.resp(), nil
}
func (p *simple) ValidateReq(req any) error { return nil }
func (p *simple) Request() any              { return p.req() }
func (p *simple) Response() any             { return p.resp() }
func (p *simple) IsCheck() bool             { return p.check }
func (p *simple) RetryPolicy() exponential.Policy {
	return exponential.Policy{InitialInterval: time.Millisecond, Multiplier: 1.1, MaxInterval: 2 * time.Millisecond}
}
func (p *simple) Init() error { return nil }

// Plugin names of the storage registry.
const (
	RichV = "richv" // value-typed rich request/response
	RichP = "richp" // pointer-typed rich request/response
	RichC = "richc" // check flavour of RichV
	NilRq = "nilrq" // Request() returns nil
	Bad   = "bad"   // BadReq (value)
	BadC  = "badc"  // BadReq check flavour
)

// Registry returns a registry with the scripted plugins plus the storage plugins.
func Registry(l *plug.Log) *registry.Register {
	reg := plug.Registry(l)
	reg.MustRegister(&simple{name: RichV, req: func() any { return RichReq{} }, resp: func() any { return RichResp{} }})
	reg.MustRegister(&simple{name: RichP, req: func() any { return &RichReq{} }, resp: func() any { return &RichResp{} }})
	reg.MustRegister(&simple{name: RichC, check: true, req: func() any { return RichReq{} }, resp: func() any { return RichResp{} }})
	reg.MustRegister(&simple{name: NilRq, req: func() any { return nil }, resp: func() any { return plug.Resp{} }})
	reg.MustRegister(&simple{name: Bad, req: func() any { return BadReq{} }, resp: func() any { return plug.Resp{} }})
	reg.MustRegister(&simple{name: BadC, check: true, req: func() any { return BadReq{} }, resp: func() any { return plug.Resp{} }})
	return reg
}

var hostile = []string{
	"plain", "with 'single' quotes", `with "double" quotes`, "semi;colon -- comment", "unicode ✓ 日本語 ñ", "tab\tnew\nline",
	"percent % under_score", "back\\slash", "$id $ids $plan_id", "emoji 🚀", "  padded  ", "very long " + string(make([]byte, 0)),
	"null", "0", "{}", "[]", "<html>&amp;</html>",
}

func hs(r *rand.Rand) string {
	s := hostile[r.Intn(len(hostile))]
	if r.Intn(8) == 0 {
		b := make([]byte, 300+r.Intn(700))
		for i := range b {
			b[i] = byte('a' + r.Intn(26))
		}
		s += string(b)
	}
	return s
}

// NewV7 returns a v7 uuid.
func NewV7() uuid.UUID { return workflow.NewV7() }

func randTime(r *rand.Rand) time.Time {
	switch r.Intn(6) {
	case 0:
		return time.Time{}
	case 1:
		return time.Date(2099, 12, 31, 23, 59, 59, 999999999, time.UTC)
	case 2:
		return time.Unix(1, 1).UTC()
	}
	return time.Unix(1700000000+r.Int63n(100000000), r.Int63n(1000000000)).UTC()
}

func randState(r *rand.Rand) *workflow.State {
	sts := []workflow.Status{workflow.NotStarted, workflow.Running, workflow.Completed, workflow.Failed, workflow.Stopped}
	return &workflow.State{Status: sts[r.Intn(len(sts))], Start: randTime(r), End: randTime(r)}
}

func randInner(r *rand.Rand) RichInner {
	in := RichInner{A: hs(r)}
	for i := 0; i < r.Intn(4); i++ {
		in.Z = append(in.Z, r.Intn(1000)-500)
	}
	return in
}

func randRich(r *rand.Rand) RichReq {
	q := RichReq{S: hs(r), N: r.Int63() - r.Int63(), F: float64(r.Intn(1000000)) / 64, B: r.Intn(2) == 0, Inner: randInner(r)}
	if r.Intn(2) == 0 {
		q.Bytes = make([]byte, 1+r.Intn(40))
		r.Read(q.Bytes)
	}
	if r.Intn(2) == 0 {
		q.When = time.Unix(1600000000+r.Int63n(100000000), r.Int63n(1000000000)).UTC()
	}
	for i := 0; i < r.Intn(4); i++ {
		q.List = append(q.List, hs(r))
	}
	if r.Intn(2) == 0 {
		q.M = map[string]int{}
		for i := 0; i < 1+r.Intn(3); i++ {
			q.M[fmt.Sprintf("k%d", i)] = r.Intn(100)
		}
	}
	if r.Intn(2) == 0 {
		in := randInner(r)
		q.Ptr = &in
	}
	for i := 0; i < r.Intn(3); i++ {
		q.Many = append(q.Many, randInner(r))
	}
	return q
}

func randRichResp(r *rand.Rand) RichResp {
	p := RichResp{Out: hs(r)}
	for i := 0; i < r.Intn(4); i++ {
		p.Vals = append(p.Vals, float64(r.Intn(100000))/8)
	}
	if r.Intn(2) == 0 {
		in := randInner(r)
		p.Inner = &in
	}
	if r.Intn(2) == 0 {
		p.M = map[string]string{"a": hs(r)}
	}
	return p
}

func randErr(r *rand.Rand, depth int) *plugins.Error {
	e := &plugins.Error{Code: plugins.ErrCode(r.Intn(50)), Message: hs(r), Permanent: r.Intn(2) == 0}
	if depth > 0 && r.Intn(2) == 0 {
		e.Wrapped = randErr(r, depth-1)
	}
	return e
}

// RandAttempts builds 0-3 attempts whose responses fit plugin name.
func RandAttempts(r *rand.Rand, plugin string, n int) []*workflow.Attempt {
	var out []*workflow.Attempt
	for i := 0; i < n; i++ {
		a := &workflow.Attempt{Start: time.Unix(1700000000+r.Int63n(1000), r.Int63n(1e9)).UTC()}
		a.End = a.Start.Add(time.Duration(r.Int63n(1e9)))
		if r.Intn(2) == 0 {
			a.Err = randErr(r, 2)
		} else {
			switch plugin {
			case RichV, RichC:
				a.Resp = randRichResp(r)
			case RichP:
				x := randRichResp(r)
				a.Resp = &x
			case plug.ActP, plug.ChkP:
				a.Resp = &plug.Resp{Tok: hs(r)}
			default:
				a.Resp = plug.Resp{Tok: hs(r)}
			}
		}
		out = append(out, a)
	}
	return out
}

// GenOpts steer the storage plan generator.
type GenOpts struct {
	MaxBlocks, MaxSeqs, MaxActions int
	Executed                       bool // random states/attempts as if executed
	Small                          bool
}

func randAction(r *rand.Rand, check bool, o GenOpts, n *int) *workflow.Action {
	*n++
	a := &workflow.Action{ID: NewV7(), Name: fmt.Sprintf("a%d %s", *n, hs(r)), Descr: "d " + hs(r), State: &workflow.State{}}
	if r.Intn(3) == 0 {
		a.Key = NewV7()
	}
	a.Timeout = []time.Duration{30 * time.Second, 5 * time.Second, time.Nanosecond, time.Duration(1<<62 - 1), 0}[r.Intn(5)]
	a.Retries = []int{0, 1, 3, 1 << 30}[r.Intn(4)]
	if check {
		switch r.Intn(3) {
		case 0:
			a.Plugin = plug.Chk
			a.Req = plug.Req{Plan: hs(r), Tag: fmt.Sprintf("t%d", *n), Steps: []plug.Step{{Out: "ok", SleepUS: r.Intn(10)}}}
		case 1:
			a.Plugin = plug.ChkP
			a.Req = &plug.Req{Plan: hs(r), Tag: fmt.Sprintf("t%d", *n)}
		default:
			a.Plugin = RichC
			a.Req = randRich(r)
		}
	} else {
		switch r.Intn(6) {
		case 0:
			a.Plugin = plug.Act
			a.Req = plug.Req{Plan: hs(r), Tag: fmt.Sprintf("t%d", *n), Steps: []plug.Step{{Out: "ok"}, {Out: "permanent", SleepUS: 3}}}
		case 1:
			a.Plugin = plug.ActP
			a.Req = &plug.Req{Plan: hs(r), Tag: fmt.Sprintf("t%d", *n)}
		case 2, 3:
			a.Plugin = RichV
			a.Req = randRich(r)
		case 4:
			a.Plugin = RichP
			x := randRich(r)
			a.Req = &x
		default:
			a.Plugin = NilRq
			a.Req = nil
		}
	}
	if o.Executed {
		a.State = randState(r)
		a.Attempts = RandAttempts(r, a.Plugin, r.Intn(4))
	}
	return a
}

func randChecks(r *rand.Rand, o GenOpts, n *int) *workflow.Checks {
	c := &workflow.Checks{ID: NewV7(), Delay: []time.Duration{0, time.Second, 30 * time.Second, time.Duration(1<<62 - 1)}[r.Intn(4)], State: &workflow.State{}}
	if r.Intn(3) == 0 {
		c.Key = NewV7()
	}
	if o.Executed {
		c.State = randState(r)
	}
	for i := 0; i < 1+r.Intn(max(1, o.MaxActions)); i++ {
		c.Actions = append(c.Actions, randAction(r, true, o, n))
	}
	return c
}

// RandPlan builds a plan in "as stored" shape (ids set, states set), with hostile field values.
func RandPlan(r *rand.Rand, o GenOpts) *workflow.Plan {
	n := 0
	p := &workflow.Plan{ID: NewV7(), Name: "plan " + hs(r), Descr: "descr " + hs(r), State: &workflow.State{}, SubmitTime: time.Unix(1700000000+r.Int63n(1e6), r.Int63n(1e9)).UTC()}
	if r.Intn(2) == 0 {
		p.GroupID = NewV7()
	}
	switch r.Intn(3) {
	case 0:
		p.Meta = []byte(hs(r))
	case 1:
		p.Meta = []byte{}
	}
	if o.Executed {
		p.State = randState(r)
		p.Reason = []workflow.FailureReason{workflow.FRUnknown, workflow.FRPreCheck, workflow.FRBlock, workflow.FRPostCheck, workflow.FRContCheck, workflow.FRDeferredCheck, workflow.FRExceedRecovery}[r.Intn(7)]
	}
	pg := 0.35
	if r.Float64() < pg {
		p.BypassChecks = randChecks(r, o, &n)
	}
	if r.Float64() < pg {
		p.PreChecks = randChecks(r, o, &n)
	}
	if r.Float64() < pg {
		p.ContChecks = randChecks(r, o, &n)
	}
	if r.Float64() < pg {
		p.PostChecks = randChecks(r, o, &n)
	}
	if r.Float64() < pg {
		p.DeferredChecks = randChecks(r, o, &n)
	}
	for b := 0; b < 1+r.Intn(max(1, o.MaxBlocks)); b++ {
		blk := &workflow.Block{ID: NewV7(), Name: fmt.Sprintf("b%d %s", b, hs(r)), Descr: "bd " + hs(r), State: &workflow.State{},
			EntranceDelay: []time.Duration{0, time.Millisecond, time.Duration(1<<62 - 1)}[r.Intn(3)],
			ExitDelay:     []time.Duration{0, time.Second}[r.Intn(2)],
			Concurrency:   []int{1, 2, 7, 1 << 30}[r.Intn(4)], ToleratedFailures: []int{-1, 0, 1, 1 << 30}[r.Intn(4)]}
		if r.Intn(3) == 0 {
			blk.Key = NewV7()
		}
		if o.Executed {
			blk.State = randState(r)
		}
		if r.Float64() < pg {
			blk.BypassChecks = randChecks(r, o, &n)
		}
		if r.Float64() < pg {
			blk.PreChecks = randChecks(r, o, &n)
		}
		if r.Float64() < pg {
			blk.ContChecks = randChecks(r, o, &n)
		}
		if r.Float64() < pg {
			blk.PostChecks = randChecks(r, o, &n)
		}
		if r.Float64() < pg {
			blk.DeferredChecks = randChecks(r, o, &n)
		}
		for s := 0; s < 1+r.Intn(max(1, o.MaxSeqs)); s++ {
			sq := &workflow.Sequence{ID: NewV7(), Name: fmt.Sprintf("s%d %s", s, hs(r)), Descr: "sd " + hs(r), State: &workflow.State{}}
			if r.Intn(3) == 0 {
				sq.Key = NewV7()
			}
			if o.Executed {
				sq.State = randState(r)
			}
			for a := 0; a < 1+r.Intn(max(1, o.MaxActions)); a++ {
				sq.Actions = append(sq.Actions, randAction(r, false, o, &n))
			}
			blk.Sequences = append(blk.Sequences, sq)
		}
		p.Blocks = append(p.Blocks, blk)
	}
	// ids are arbitrary v7 uuids as far as a vault is concerned: hand the action ids out in shuffled order so that
	// a reader that orders by id instead of by position is visible
	var acts []*workflow.Action
	collect := func(c *workflow.Checks) {
		if c != nil {
			acts = append(acts, c.Actions...)
		}
	}
	collect(p.BypassChecks)
	collect(p.PreChecks)
	collect(p.ContChecks)
	collect(p.PostChecks)
	collect(p.DeferredChecks)
	for _, b := range p.Blocks {
		collect(b.BypassChecks)
		collect(b.PreChecks)
		collect(b.ContChecks)
		collect(b.PostChecks)
		collect(b.DeferredChecks)
		for _, sq := range b.Sequences {
			acts = append(acts, sq.Actions...)
		}
	}
	perm := r.Perm(len(acts))
	ids := make([]uuid.UUID, len(acts))
	for i, a := range acts {
		ids[i] = a.ID
	}
	for i, a := range acts {
		a.ID = ids[perm[i]]
	}
	return p
}
