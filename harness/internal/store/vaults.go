package store

import (
	"encoding/json"
	"fmt"

	"github.com/element-of-surprise/coercion/plugins/registry"
	"github.com/element-of-surprise/coercion/workflow"
	"github.com/element-of-surprise/coercion/workflow/context"
	"github.com/element-of-surprise/coercion/workflow/storage"
	"github.com/element-of-surprise/coercion/workflow/storage/cosmosdb"
	"github.com/element-of-surprise/coercion/workflow/storage/sqlite"
	"github.com/google/uuid"
	zsqlite "zombiezen.com/go/sqlite"
	"zombiezen.com/go/sqlite/sqlitex"
)

func jsonUnmarshal(b []byte, v any) error { return json.Unmarshal(b, v) }

// Handle is a vault plus its raw-store inspector.
type Handle struct {
	Name  string // sqlite-mem sqlite-file cosmos-fake
	Vault storage.Vault
	// RawCount returns the number of raw rows/items that belong to plan id, per table.
	RawCount func(ctx context.Context, id uuid.UUID) (map[string]int, error)
	// RawTotal returns the total number of raw rows/items per table.
	RawTotal func(ctx context.Context) (map[string]int, error)
	// Orphans returns the number of child rows whose plan id has no plans row.
	Orphans func(ctx context.Context) (int, error)
	Cosmos  *cosmosdb.VerifVault
	SQLite  *sqlite.Vault
	// ActionsAsSet: compare actions as a set (cosmos fake ignores ORDER BY c.pos).
	ActionsAsSet bool
}

var sqliteTables = []struct{ table, col string }{
	{"plans", "id"}, {"blocks", "plan_id"}, {"checks", "plan_id"}, {"sequences", "plan_id"}, {"actions", "plan_id"},
}

func sqliteHandle(name string, v *sqlite.Vault) *Handle {
	h := &Handle{Name: name, Vault: v, SQLite: v}
	count := func(ctx context.Context, q string, args ...any) (int, error) {
		conn, err := v.Pool().Take(ctx)
		if err != nil {
			return 0, err
		}
		defer v.Pool().Put(conn)
		n := 0
		err = sqlitex.Execute(conn, q, &sqlitex.ExecOptions{Args: args, ResultFunc: func(stmt *zsqlite.Stmt) error {
			n = stmt.ColumnInt(0)
			return nil
		}})
		return n, err
	}
	h.RawCount = func(ctx context.Context, id uuid.UUID) (map[string]int, error) {
		out := map[string]int{}
		for _, t := range sqliteTables {
			// plan_id is declared BLOB in blocks but written as text; compare as text
			n, err := count(ctx, fmt.Sprintf("SELECT count(*) FROM %s WHERE CAST(%s AS TEXT) = ?", t.table, t.col), id.String())
			if err != nil {
				return nil, err
			}
			out[t.table] = n
		}
		return out, nil
	}
	h.RawTotal = func(ctx context.Context) (map[string]int, error) {
		out := map[string]int{}
		for _, t := range sqliteTables {
			n, err := count(ctx, fmt.Sprintf("SELECT count(*) FROM %s", t.table))
			if err != nil {
				return nil, err
			}
			out[t.table] = n
		}
		return out, nil
	}
	h.Orphans = func(ctx context.Context) (int, error) {
		total := 0
		for _, t := range sqliteTables[1:] {
			n, err := count(ctx, fmt.Sprintf("SELECT count(*) FROM %s WHERE CAST(plan_id AS TEXT) NOT IN (SELECT id FROM plans)", t.table))
			if err != nil {
				return 0, err
			}
			total += n
		}
		return total, nil
	}
	return h
}

// NewSQLiteMem opens a fresh in-memory sqlite vault.
func NewSQLiteMem(ctx context.Context, reg *registry.Register, opts ...sqlite.Option) (*Handle, error) {
	v, err := sqlite.New(ctx, "", reg, append([]sqlite.Option{sqlite.WithInMemory()}, opts...)...)
	if err != nil {
		return nil, err
	}
	return sqliteHandle("sqlite-mem", v), nil
}

// NewSQLiteFile opens (or creates) a file-backed sqlite vault in dir.
func NewSQLiteFile(ctx context.Context, reg *registry.Register, dir string) (*Handle, error) {
	v, err := sqlite.New(ctx, dir, reg)
	if err != nil {
		return nil, err
	}
	return sqliteHandle("sqlite-file", v), nil
}

// NewCosmosFake opens a cosmosdb vault over the package's fake client (verif hook).
func NewCosmosFake(ctx context.Context, reg *registry.Register) (*Handle, error) {
	return CosmosHandle(cosmosdb.NewVerifVault(reg)), nil
}

// CosmosHandle wraps a hook vault (a first one, or a later one over the same fake storage) with the raw inspectors.
func CosmosHandle(cv *cosmosdb.VerifVault) *Handle {
	h := &Handle{Name: "cosmos-fake", Vault: cv.Vault, Cosmos: cv, ActionsAsSet: true}
	h.RawCount = func(ctx context.Context, id uuid.UUID) (map[string]int, error) {
		items, err := cv.RawItems(ctx)
		if err != nil {
			return nil, err
		}
		out := map[string]int{"pages": 0, "search": 0}
		for _, it := range items {
			if it.Table == "pages" && it.PlanID == id.String() {
				out["pages"]++
			}
			if it.Table == "search" && it.ID == id.String() {
				out["search"]++
			}
		}
		return out, nil
	}
	h.RawTotal = func(ctx context.Context) (map[string]int, error) {
		items, err := cv.RawItems(ctx)
		if err != nil {
			return nil, err
		}
		out := map[string]int{"pages": 0, "search": 0}
		for _, it := range items {
			out[it.Table]++
		}
		return out, nil
	}
	h.Orphans = func(ctx context.Context) (int, error) {
		items, err := cv.RawItems(ctx)
		if err != nil {
			return 0, err
		}
		plans := map[string]bool{}
		for _, it := range items {
			if it.Table == "pages" && it.ID == it.PlanID {
				plans[it.ID] = true
			}
		}
		n := 0
		for _, it := range items {
			if it.Table == "pages" && !plans[it.PlanID] {
				n++
			}
			if it.Table == "search" && !plans[it.ID] {
				n++
			}
		}
		return n, nil
	}
	return h
}

// Model is the reference model of a vault: the documented effect of each call on canonical trees.
type Model struct {
	Plans   map[string]*Node
	Deleted map[string]bool
	idx     map[string]map[string]*Node // plan id -> object id -> node
}

func NewModel() *Model {
	return &Model{Plans: map[string]*Node{}, Deleted: map[string]bool{}, idx: map[string]map[string]*Node{}}
}

func (m *Model) Create(p *workflow.Plan) {
	n := Canon(p)
	m.Plans[n.ID] = n
	m.idx[n.ID] = n.Index(nil)
	delete(m.Deleted, n.ID)
}

func (m *Model) Delete(id uuid.UUID) {
	delete(m.Plans, id.String())
	delete(m.idx, id.String())
	m.Deleted[id.String()] = true
}

func (m *Model) node(planID, id string) *Node {
	if ix := m.idx[planID]; ix != nil {
		return ix[id]
	}
	return nil
}

// find locates an object by id in any plan.
func (m *Model) find(id string) *Node {
	for _, ix := range m.idx {
		if n := ix[id]; n != nil {
			return n
		}
	}
	return nil
}

func (m *Model) UpdatePlan(p *workflow.Plan) {
	if n := m.find(p.ID.String()); n != nil {
		stateInto(n, p.State)
		n.Reason = int(p.Reason)
	}
}

func (m *Model) UpdateState(id uuid.UUID, s *workflow.State) {
	if n := m.find(id.String()); n != nil {
		stateInto(n, s)
	}
}

func (m *Model) UpdateAction(a *workflow.Action) {
	if n := m.find(a.ID.String()); n != nil {
		stateInto(n, a.State)
		n.Attempts = canonAttempts(a.Attempts)
	}
}
