// Package store: reference model of a vault, canonical structural form of plans, rich request types,
// vault factories and raw-store inspectors (DESIGN §C13-§C15).
package store

import (
	"encoding/json"
	"fmt"
	"sort"
	"strings"
	"time"

	"github.com/element-of-surprise/coercion/plugins"
	"github.com/element-of-surprise/coercion/workflow"
	"github.com/google/uuid"
)

// Node is the canonical form of one workflow object.
type Node struct {
	Kind   string         // plan block checks seq action
	ID     string         // uuid string
	Def    map[string]any // definition fields (canonical scalars)
	Status int
	Start  int64 // 0 = zero time
	End    int64
	// plan only
	Reason int
	Submit int64
	// action only
	Attempts []AttemptC
	// children in walk order: group name -> nodes
	Groups map[string][]*Node
	order  []string
}

type ErrC struct {
	Code      uint
	Message   string
	Permanent bool
}

type AttemptC struct {
	Resp  string // "<type>|<json>" or ""
	Errs  []ErrC // chain, outermost first
	Start int64
	End   int64
}

func nanos(t time.Time) int64 {
	if t.IsZero() {
		return 0
	}
	return t.UnixNano()
}

func idStr(u uuid.UUID) string {
	if u == uuid.Nil {
		return ""
	}
	return u.String()
}

// typed renders a request/response value as "<Go type>|<json>"; nil is "".
func typed(v any) string {
	if v == nil {
		return ""
	}
	b, err := json.Marshal(v)
	if err != nil {
		return fmt.Sprintf("%T|<unmarshalable: %v>", v, err)
	}
	// nil and empty slices/maps are identified: normalise through a generic tree
	var tree any
	if err := json.Unmarshal(b, &tree); err == nil {
		if nb, err := json.Marshal(normJSON(tree)); err == nil {
			b = nb
		}
	}
	return fmt.Sprintf("%T|%s", v, b)
}

func normJSON(t any) any {
	switch x := t.(type) {
	case map[string]any:
		if len(x) == 0 {
			return nil
		}
		for k, v := range x {
			x[k] = normJSON(v)
		}
		return x
	case []any:
		if len(x) == 0 {
			return nil
		}
		for i := range x {
			x[i] = normJSON(x[i])
		}
		return x
	case string:
		if x == "" { // nil and empty []byte both encode to ""/null
			return nil
		}
	}
	return t
}

func errChain(e *plugins.Error) []ErrC {
	var out []ErrC
	for e != nil && len(out) < 16 {
		out = append(out, ErrC{Code: uint(e.Code), Message: e.Message, Permanent: e.Permanent})
		e = e.Wrapped
	}
	return out
}

func stateInto(n *Node, s *workflow.State) {
	if s == nil {
		n.Status = -1
		return
	}
	n.Status = int(s.Status)
	n.Start = nanos(s.Start)
	n.End = nanos(s.End)
}

func canonAttempts(as []*workflow.Attempt) []AttemptC {
	var out []AttemptC
	for _, a := range as {
		if a == nil {
			out = append(out, AttemptC{Resp: "<nil attempt>"})
			continue
		}
		out = append(out, AttemptC{Resp: typed(a.Resp), Errs: errChain(a.Err), Start: nanos(a.Start), End: nanos(a.End)})
	}
	return out
}

func canonAction(a *workflow.Action) *Node {
	n := &Node{Kind: "action", ID: idStr(a.ID), Def: map[string]any{
		"key": idStr(a.Key), "name": a.Name, "descr": a.Descr, "plugin": a.Plugin,
		"timeout": int64(a.Timeout), "retries": a.Retries, "req": typed(a.Req),
	}}
	stateInto(n, a.State)
	n.Attempts = canonAttempts(a.Attempts)
	return n
}

func (n *Node) add(group string, c ...*Node) {
	if n.Groups == nil {
		n.Groups = map[string][]*Node{}
	}
	if _, ok := n.Groups[group]; !ok {
		n.order = append(n.order, group)
	}
	n.Groups[group] = append(n.Groups[group], c...)
}

func canonChecks(c *workflow.Checks) *Node {
	n := &Node{Kind: "checks", ID: idStr(c.ID), Def: map[string]any{"key": idStr(c.Key), "delay": int64(c.Delay)}}
	stateInto(n, c.State)
	for _, a := range c.Actions {
		if a != nil {
			n.add("actions", canonAction(a))
		}
	}
	return n
}

func canonSeq(s *workflow.Sequence) *Node {
	n := &Node{Kind: "seq", ID: idStr(s.ID), Def: map[string]any{"key": idStr(s.Key), "name": s.Name, "descr": s.Descr}}
	stateInto(n, s.State)
	for _, a := range s.Actions {
		if a != nil {
			n.add("actions", canonAction(a))
		}
	}
	return n
}

func canonBlock(b *workflow.Block) *Node {
	n := &Node{Kind: "block", ID: idStr(b.ID), Def: map[string]any{
		"key": idStr(b.Key), "name": b.Name, "descr": b.Descr,
		"entrancedelay": int64(b.EntranceDelay), "exitdelay": int64(b.ExitDelay),
		"concurrency": b.Concurrency, "toleratedfailures": b.ToleratedFailures,
	}}
	stateInto(n, b.State)
	addChecks(n, b.BypassChecks, b.PreChecks, b.ContChecks, b.PostChecks, b.DeferredChecks)
	for _, s := range b.Sequences {
		if s != nil {
			n.add("sequences", canonSeq(s))
		}
	}
	return n
}

func addChecks(n *Node, bypass, pre, cont, post, deferred *workflow.Checks) {
	for _, g := range []struct {
		name string
		c    *workflow.Checks
	}{{"bypass", bypass}, {"pre", pre}, {"cont", cont}, {"post", post}, {"deferred", deferred}} {
		if g.c != nil {
			n.add(g.name, canonChecks(g.c))
		}
	}
}

// Canon converts a plan to its canonical form.
func Canon(p *workflow.Plan) *Node {
	if p == nil {
		return nil
	}
	n := &Node{Kind: "plan", ID: idStr(p.ID), Def: map[string]any{
		"name": p.Name, "descr": p.Descr, "group": idStr(p.GroupID), "meta": string(p.Meta),
	}, Reason: int(p.Reason), Submit: nanos(p.SubmitTime)}
	stateInto(n, p.State)
	addChecks(n, p.BypassChecks, p.PreChecks, p.ContChecks, p.PostChecks, p.DeferredChecks)
	for _, b := range p.Blocks {
		if b != nil {
			n.add("blocks", canonBlock(b))
		}
	}
	return n
}

// Index returns id -> node for the whole tree.
func (n *Node) Index(into map[string]*Node) map[string]*Node {
	if into == nil {
		into = map[string]*Node{}
	}
	if n == nil {
		return into
	}
	into[n.ID] = n
	for _, g := range n.Groups {
		for _, c := range g {
			c.Index(into)
		}
	}
	return into
}

// Count returns the number of objects per kind.
func (n *Node) Count(into map[string]int) map[string]int {
	if into == nil {
		into = map[string]int{}
	}
	if n == nil {
		return into
	}
	into[n.Kind]++
	for _, g := range n.Groups {
		for _, c := range g {
			c.Count(into)
		}
	}
	return into
}

// DiffOpts tune the comparison.
type DiffOpts struct {
	// ActionsAsSet compares the actions of a group/sequence as a set keyed by id (cosmos fake ignores ORDER BY).
	ActionsAsSet bool
	// DefOnly compares only definition fields and structure (no ids, state, attempts).
	DefOnly bool
	// IgnoreIDs skips id comparison (clones).
	IgnoreIDs bool
}

// Diff returns "" if equal, else a description of the first difference: "<path>: <field> want X got Y".
// The returned field name ("Type.Field") is suitable as a signature discriminator.
func Diff(want, got *Node, o DiffOpts) (field, msg string) {
	return diff("", want, got, o)
}

func diff(path string, w, g *Node, o DiffOpts) (string, string) {
	if w == nil || g == nil {
		if w == g {
			return "", ""
		}
		return "presence", fmt.Sprintf("%s: want present=%v got present=%v", path, w != nil, g != nil)
	}
	p := path + "/" + w.Kind
	if n, ok := w.Def["name"].(string); ok && n != "" {
		if len(n) > 24 {
			n = n[:24] + "…"
		}
		p += "(" + n + ")"
	}
	if w.Kind != g.Kind {
		return "kind", fmt.Sprintf("%s: kind want %s got %s", p, w.Kind, g.Kind)
	}
	if !o.IgnoreIDs && !o.DefOnly && w.ID != g.ID {
		return w.Kind + ".ID", fmt.Sprintf("%s: id want %s got %s", p, w.ID, g.ID)
	}
	keys := make([]string, 0, len(w.Def))
	for k := range w.Def {
		keys = append(keys, k)
	}
	sort.Strings(keys)
	for _, k := range keys {
		if fmt.Sprint(w.Def[k]) != fmt.Sprint(g.Def[k]) {
			return w.Kind + "." + k, fmt.Sprintf("%s: %s want %q got %q", p, k, trunc(fmt.Sprint(w.Def[k])), trunc(fmt.Sprint(g.Def[k])))
		}
	}
	if !o.DefOnly {
		if w.Status != g.Status {
			return w.Kind + ".State.Status", fmt.Sprintf("%s: status want %d got %d", p, w.Status, g.Status)
		}
		if w.Start != g.Start {
			return w.Kind + ".State.Start", fmt.Sprintf("%s: start want %d got %d", p, w.Start, g.Start)
		}
		if w.End != g.End {
			return w.Kind + ".State.End", fmt.Sprintf("%s: end want %d got %d", p, w.End, g.End)
		}
		if w.Reason != g.Reason {
			return "plan.Reason", fmt.Sprintf("%s: reason want %d got %d", p, w.Reason, g.Reason)
		}
		if w.Submit != g.Submit {
			return "plan.SubmitTime", fmt.Sprintf("%s: submit time want %d got %d", p, w.Submit, g.Submit)
		}
		if len(w.Attempts) != len(g.Attempts) {
			return "action.Attempts", fmt.Sprintf("%s: attempts want %d got %d", p, len(w.Attempts), len(g.Attempts))
		}
		for i := range w.Attempts {
			wa, ga := w.Attempts[i], g.Attempts[i]
			if wa.Resp != ga.Resp {
				return "attempt.Resp", fmt.Sprintf("%s: attempt %d resp want %q got %q", p, i, trunc(wa.Resp), trunc(ga.Resp))
			}
			if wa.Start != ga.Start || wa.End != ga.End {
				return "attempt.Times", fmt.Sprintf("%s: attempt %d times want %d-%d got %d-%d", p, i, wa.Start, wa.End, ga.Start, ga.End)
			}
			if len(wa.Errs) != len(ga.Errs) {
				return "attempt.Err", fmt.Sprintf("%s: attempt %d error chain length want %d got %d", p, i, len(wa.Errs), len(ga.Errs))
			}
			for j := range wa.Errs {
				if wa.Errs[j] != ga.Errs[j] {
					return "attempt.Err", fmt.Sprintf("%s: attempt %d error[%d] want %+v got %+v", p, i, j, wa.Errs[j], ga.Errs[j])
				}
			}
		}
	}
	// children
	names := map[string]bool{}
	for k := range w.Groups {
		names[k] = true
	}
	for k := range g.Groups {
		names[k] = true
	}
	var ns []string
	for k := range names {
		ns = append(ns, k)
	}
	sort.Strings(ns)
	for _, name := range ns {
		wc, gc := w.Groups[name], g.Groups[name]
		if len(wc) != len(gc) {
			return w.Kind + "." + name + ".len", fmt.Sprintf("%s: %s count want %d got %d", p, name, len(wc), len(gc))
		}
		if name == "actions" && o.ActionsAsSet && !o.IgnoreIDs {
			byID := map[string]*Node{}
			for _, c := range gc {
				byID[c.ID] = c
			}
			for _, c := range wc {
				if f, m := diff(p+"/"+name, c, byID[c.ID], o); m != "" {
					return f, m
				}
			}
			continue
		}
		for i := range wc {
			if f, m := diff(fmt.Sprintf("%s/%s[%d]", p, name, i), wc[i], gc[i], o); m != "" {
				if f == wc[i].Kind+".ID" {
					f = w.Kind + "." + name + ".order"
				}
				return f, m
			}
		}
	}
	return "", ""
}

func trunc(s string) string {
	if len(s) > 160 {
		return s[:160] + "…"
	}
	return s
}

// Summary renders a node tree compactly (for samples).
func (n *Node) Summary() string {
	var sb strings.Builder
	var rec func(n *Node, d int)
	rec = func(n *Node, d int) {
		fmt.Fprintf(&sb, "%s%s st=%d", strings.Repeat(" ", d), n.Kind, n.Status)
		if len(n.Attempts) > 0 {
			fmt.Fprintf(&sb, " att=%d", len(n.Attempts))
		}
		sb.WriteString("\n")
		for _, g := range n.order {
			for _, c := range n.Groups[g] {
				rec(c, d+1)
			}
		}
	}
	rec(n, 0)
	return sb.String()
}
