#!/bin/bash
# Builds the harness once (warms the Go build cache; race build). Offline, from files on disk only.
set -e
export GOFLAGS=-mod=mod GOPROXY=off
cd "$(dirname "$0")/harness"
mkdir -p ../bin ../evidence
go test -c -race -tags verif -o ../bin/checks.test.setup ./checks
rm -f ../bin/checks.test.setup
echo setup ok
