#!/usr/bin/env python3
"""Generates MANIFEST.json from the table below (kept in one place so it stays valid)."""
import json, subprocess, os
ROOT = os.path.dirname(os.path.abspath(__file__))

def hook_commits():
    try:
        out = subprocess.run(["git", "-C", "/repo", "log", "--format=%H %s"], capture_output=True, text=True).stdout
        return [l.split()[0] for l in out.splitlines() if " verif-hook:" in " " + l]
    except Exception:
        return []

# id -> (level, technique, text, note, design_ref)
CHECKS = {}
NOT_YET = {}

def load():
    import importlib.util
    spec = importlib.util.spec_from_file_location("tbl", os.path.join(ROOT, "manifest_table.py"))
    m = importlib.util.module_from_spec(spec); spec.loader.exec_module(m)
    return m.CHECKS, m.NOT_APPLICABLE

def main():
    checks, na = load()
    man = {
        "version": 1,
        "setup_cmd": "cd /verif && ./setup.sh",
        "hooks": {
            "guard": "verif",
            "enable": "go build tag: the harness is built with `go test -c -race -tags verif` against /repo through a `replace` directive",
            "baseline_off_cmd": "cd /repo && GOFLAGS=-mod=mod GOPROXY=off go test -vet=off -count=1 -timeout 25m ./...",
            "source_commits": hook_commits(),
            "add_only": True,
        },
        "engines": [{
            "name": "checks.test", "path": "/verif/harness",
            "serves_properties": sorted(checks.keys()),
            "kind_free_text": "one Go test binary (race detector on) that drives the real engine/vaults under generated, hostile and fault-injected workloads in child processes and decides each property with an oracle over recorded plugin/vault/API events",
        }],
        "checks": [],
        "not_applicable": [{"property_id": k, "reason": v} for k, v in sorted(na.items())],
        "notes": "Technique family: runtime monitoring and sanitizers. See DESIGN.md. known_findings.jsonl lists genuine defects recorded rather than repaired.",
    }
    for pid in sorted(checks.keys()):
        c = checks[pid]
        man["checks"].append({
            "property_id": pid,
            "quick_cmd": f"./check {pid} quick",
            "thorough_cmd": f"./check {pid} thorough",
            "evidence_file": f"/verif/evidence/{pid}.json",
            "replay_cmd_template": f"./check {pid} quick --replay {{path}}",
            "engine": "checks.test",
            "level_claimed": {"category": c["level"], "text": c["text"], "design_ref": c["ref"]},
            "level_note": c["note"],
            "technique": c["technique"],
        })
    with open(os.path.join(ROOT, "MANIFEST.json"), "w") as f:
        json.dump(man, f, indent=1)
        f.write("\n")

if __name__ == "__main__":
    main()
