#!/usr/bin/env python3
"""Generates the prompt given to an independent seeding sub-agent: property text + scratch worktree only.
usage: seed_prompt.py <property id> <worktree path>"""
import json, sys
props = {json.loads(l)['id']: json.loads(l) for l in open('/verif/properties.jsonl')}
pid, wt = sys.argv[1], sys.argv[2]
K = sys.argv[3] if len(sys.argv) > 3 else None
MODE = sys.argv[4] if len(sys.argv) > 4 else ""
p = props[pid]
EXTRA = ""
if MODE == "coop":
    EXTRA = "SHAPE RULE: the change must consist of TWO cooperating edits in two different functions (preferably different files), each of which is harmless when applied alone (say so in meta.json and verify it if you can: the demo passes with either edit alone). Only candidates of that shape count for the candidate list below.\n\n"
elif MODE == "cosmos":
    EXTRA = "LOCATION RULE: the change must be in code that only the cosmosdb storage back-end uses (workflow/storage/cosmosdb, non-test files, not fake_*.go) or must only manifest when the engine runs on the cosmosdb vault. The package's own tests show how to build a Vault over the in-package fake client (see crud_test.go / newFakeStorage); your demonstration may be an in-package test file workflow/storage/cosmosdb/seeded_demo_test.go.\n\n"
DIVERSITY = "" if K is None else f"DIVERSITY RULE: do not take the first idea. First write down at least 8 candidate changes that are located in at least 5 different functions (and in different files where the behaviour behind the property spans several files: state machine, action runner, recovery, storage back-ends sqlite AND cosmosdb, validation, helpers), number them 1..n, then work on candidate number (({K} - 1) mod n) + 1; only if that one cannot be made to pass the existing suite move on to the next number. Say in meta.json which candidates you listed.\n\n"
print(f"""You are given a Go repository (a workflow engine: module github.com/element-of-surprise/coercion) as a scratch git worktree at {wt}. Work ONLY inside {wt} (never touch /repo, never look at /verif — it is off limits).

PROPERTY ({pid}: {p['title']}):
{p['statement']}
(Quantified over: {p['quantifier']['text']})

TASK: produce ONE realistic code change to the engine (non-test .go files under {wt}) that BREAKS this property while (a) the repository still compiles, and (b) the repository's existing test suite still passes. The change should look like a plausible regression/refactoring mistake a developer could make (wrong condition, dropped wait/lock/flush, reordered statements, off-by-one, wrong variable, missing propagation, two cooperating sites that each look fine alone ...). It must NOT be something ordinary use would expose at once: it should need something specific to manifest — a particular interleaving, a crash or fault at a particular point, a multi-step sequence of operations, an unusual input or configuration, or a specific plan shape. Keep the diff small (typically 1-15 lines). Do not touch test files, do not add build tags, do not change public API signatures.

{EXTRA}{DIVERSITY}ENVIRONMENT: no network. For every go command use exactly: `export GOFLAGS=-mod=mod GOPROXY=off` (do NOT set GOTOOLCHAIN or GOSUMDB). Run the existing suite with `cd {wt} && go test -vet=off -count=1 ./...` (takes ~2-3 min because of internal/etoe); it must pass with your change applied (run it, do not assume).

DEMONSTRATION: write a demonstration that the property is really broken: a Go test file `{wt}/internal/etoe/seeded_demo_test.go` (package etoe; or another suitable package / a small main program under {wt}/cmd_demo/ if easier) that drives the PUBLIC behaviour (coercion.New / Submit / Start / Wait / storage vault API / the relevant public package) with your own plugins, and FAILS with your change and PASSES on the unchanged code (to verify both ways use `git diff > /tmp/<name>.diff; git apply -R /tmp/<name>.diff; ...; git apply /tmp/<name>.diff` — do NOT use `git stash`: the stash is shared with other worktrees of this repository and other people are using it; if the failure is schedule-dependent, loop inside the test until it shows, and say how many iterations it typically needs). Look at {wt}/internal/etoe/*_test.go and {wt}/workflow/storage/sqlite/testing/plugins for how to write plugins and run plans (sqlite.New(ctx, "", reg, sqlite.WithInMemory()) gives an in-memory store).

DELIVERABLES (leave them in {wt}):
1. `{wt}/SEED/patch.diff` = `git diff` of the non-test change only (apply-able with `git apply` on the original commit);
2. `{wt}/SEED/demo/` = a copy of your demonstration file(s) and a one-line command to run them;
3. `{wt}/SEED/meta.json` = {{"property": "{pid}", "summary": "...what the change does...", "needs": "...what it needs in order to manifest (interleaving / crash point / input / sequence)...", "suite_passes_with_change": true/false, "demo_fails_with_change": true/false, "demo_passes_without_change": true/false, "commands": ["..."]}}.
Finally leave the worktree with the change APPLIED. In your final message summarise the change, what it needs to manifest and the verification you ran. If after honest effort you cannot find a change that passes the existing suite, say so and explain which tests catch your attempts.""")
