# Table behind MANIFEST.json (see mkmanifest.py). Properties move from NOT_APPLICABLE to CHECKS as their
# checks are built and silent on the unchanged tree.
def c(level, technique, text, note, ref):
    return {"level": level, "technique": technique, "text": text, "note": note, "ref": ref}

ENGINE_NOTE = ("Trusted base: the harness plugins/recording vault log events under one mutex in real-time order; "
               "schedules are sampled (latency scripts + vault delays), not enumerated; held on the executions observed only.")

CHECKS = {
 "C01": c("exploration", "runtime monitor: offline ordering oracle over the merged plugin begin/end event log of the real engine, race detector on",
          "Runs the real engine on generated plans (random shapes, check groups, concurrency, tolerance, latencies with slow tails, vault delays, 1-3 plans per Workstream) and checks block order, in-sequence order with success gating, pre-check gating, post/deferred placement on the recorded begin/end events.",
          ENGINE_NOTE, "DESIGN.md §C01"),
 "C02": c("exploration", "runtime monitor: in-flight-set replay over the plugin event log (concurrency bound), race detector on",
          "Replays the totally ordered plugin log and at every begin event counts distinct sequences of the block with an invocation in flight against Concurrency, and checks that no two blocks of one plan overlap; evidence reports how many blocks actually reached their bound.",
          ENGINE_NOTE, "DESIGN.md §C02"),
 "C03": c("exploration", "runtime monitor: count/prefix oracle over plugin log + final plan (tolerated failures)",
          "Generated blocks with failing sequences at every position, all tolerance/concurrency values; oracle checks F <= T+C, exact stop for Concurrency 1, block/plan status equivalences and that nothing runs after a Failed block.",
          ENGINE_NOTE, "DESIGN.md §C03"),
 "C04": c("exploration", "runtime monitor: Wait-return snapshot vs later events and re-read plan + consistency/reason rules; Go race detector as oracle",
          "At Wait return records the plan, then watches for plugin or vault events for that plan until quiescence plus a grace window and re-reads the stored plan; applies the status-consistency and failure-reason rules; race reports between cont-check goroutines and End are attributed here.",
          ENGINE_NOTE + " 'Never changes afterwards' is bounded by the observation window.", "DESIGN.md §C04"),
 "C05": c("exploration", "runtime monitor: per-action invocation list vs stored attempts (tokens make attempts identify invocations)",
          "Scripts over {ok, transient, permanent, wrongtype, overrun} with retry budgets 0-4 for sequence and check actions; every stored attempt must carry the unique token/error of the invocation that produced it, in order, with the call-count and stop rules.",
          ENGINE_NOTE + " Plans are stored with vault.Create to allow 60 ms timeouts.", "DESIGN.md §C05"),
 "C06": c("exploration", "runtime monitor: gating oracle over plugin log + final plan; bounded-exhaustive box of check-group combinations",
          "All 243 present/pass/fail assignments of the five check groups at plan level and at block level (exhaustive box) plus random plans; oracle: bypass success runs nothing else, bypass failure alone never fails the scope, failed pre-check or failed initial continuous-check run means no sequence action is invoked and the scope fails.",
          ENGINE_NOTE, "DESIGN.md §C06"),
 "C07": c("exploration", "runtime monitor: cont-check failure/deferred-run oracle over plugin log + bounded-progress rendezvous for 'keeps being re-run'",
          "Continuous-check failures injected at run k landing before, between, during and after sequences (zones measured and required non-empty); deferred checks must run exactly once per entered, non-bypassed scope; a rendezvous action that only returns after k further continuous-check runs decides 'keeps being re-run' as bounded progress.",
          ENGINE_NOTE + " Liveness is decided as bounded progress against an 8 s watchdog (nominal milliseconds).", "DESIGN.md §C07"),
 "C08": c("exploration", "runtime monitor: write-before-begin oracle over the merged vault-write/plugin log + polling readers",
          "A recording vault logs each write after it is durable in the same ordered log as plugin begins; oracle demands a durable Running write before each invocation, durable attempts before retries/next action, durable terminal state before Wait returns; concurrent pollers check that terminal statuses never regress.",
          ENGINE_NOTE, "DESIGN.md §C08"),
}

STORE_NOTE = ("Trusted base: the reference model applies the documented effect of each vault call; cosmosdb is exercised over the "
              "package's own fake client through a verif-tagged constructor (no Cosmos engine offline).")
CHECKS.update({
 "C13": c("exploration", "runtime reference-model monitor: every Read compared structurally with an in-memory model after each vault operation",
          "PRNG histories of Create/Update*/Delete on sqlite (in-memory and file-backed, incl. reopen) and cosmosdb-over-fake with hostile field values and four typed request/response flavours; after every step Read must equal the model (definition, order, status, ns timestamps, reason, attempts with typed responses and error chains); Read of unknown/deleted ids must fail.",
          STORE_NOTE + " The cosmos fake ignores ORDER BY: actions are compared as a set there.", "DESIGN.md §C13"),
 "C14": c("fault_enumeration", "fault injection + raw-store inspection: unencodable request at every action position, SIGKILL inside Create (file-backed sqlite; at an action position, at a PRNG time, or injected by strace at the N-th pwrite64/fsync of a thread) checked by a second process, on cosmosdb death between the client writes of Create (write gate, second vault over the same storage), duplicate creates, create/delete histories",
          "For every action position of every explored plan a request whose MarshalJSON fails (or kills the process) is planted; afterwards either the complete plan is readable or no trace exists (Read, Exists, raw row/item counts), other plans and their raw rows are unchanged; duplicate Create fails without altering the first; Delete removes exactly the plan's rows.",
          STORE_NOTE + " Crash = process death (SIGKILL), not power loss; process death inside one write is sqlite-only; on cosmosdb the death between the client writes of a Create is explored with the hook write gate.", "DESIGN.md §C14"),
 "C15": c("exploration", "runtime reference-filter monitor over Exists/Search/List result streams with stream-closure watchdog, cancelled and refused callers, stamped histories of queries racing with writers under an interval oracle and the race detector; Cosmos SQL text evaluated by an interpreter of the emitted fragment",
          "After each mutation of a PRNG store, Exists for live/deleted/unknown ids, List with limits around n, Search{Running} and PRNG multi-valued filters are compared (ordered) with a reference filter over the model; every stream is drained behind a watchdog.",
          STORE_NOTE + " For cosmosdb the status/group/order semantics are decided on the emitted query text under our reading of Cosmos SQL.", "DESIGN.md §C15"),
})

CRASH_NOTE = ("Crash model: process death. sqlite: the durable state after a crash is a prefix of the committed write sequence "
              "(each update its own auto-commit), replayed with the repository's own WithCapture facility, cross-validated by real SIGKILLs on a "
              "file-backed store. cosmosdb (fake client + verif hook): the process dies between two mutating client calls (a write gate lets k "
              "through and parks every later writer), a second vault over the same storage is the next process; small strictly sequential plans, single crashes. "
              "'Hung' is decided on progress standing still, never on elapsed time alone.")
CHECKS.update({
 "C09": c("fault_enumeration", "fault enumeration by write-prefix replay + plugin-invocation monitor in the recovering Workstream",
          "For every explored plan EVERY prefix of its committed write sequence is restored into a fresh store and a normal Workstream recovers on it; the plugin log of the recovering process is checked against the durable snapshot: no invocation for actions with a durable successful result nor inside durably finished sequences/blocks/plans, and nothing durably finished is written Running again (the recovery runs through a recording vault). A sampled share of crash points is followed by every second crash during recovery.",
          CRASH_NOTE, "DESIGN.md §C09"),
 "C10": c("fault_enumeration", "fault enumeration by write-prefix replay (single and double crash) + termination watchdog, consistency, deferred-check and outcome-equality oracles",
          "Same executions as C09: recovery must return within the watchdog, the final plan obeys the consistency rules of an uninterrupted run (nothing Running, reason truthful), deferred checks of entered scopes have run, durably terminal crash states hold nothing Running, and when outcomes are a function of the action alone the plan status equals the uninterrupted one (cross-checked by an evaluator of the scripts).",
          CRASH_NOTE + " Termination is bounded progress against a 15 s watchdog.", "DESIGN.md §C10"),
 "C12": c("exploration", "runtime monitor over recorded API histories (call/return events) + plugin invocation counts; process liveness per child",
          "Racing, repeated, late and stale Start calls and PRNG concurrent programs over Submit/Start/Wait/Status/Plan on known, unknown, nil and deleted ids, in separate child processes: the child must survive, every action runs at most once (exactly once if a Start succeeded), later Starts are rejected without writes or invocations.",
          ENGINE_NOTE, "DESIGN.md §C12"),
 "C16": c("exploration", "runtime reference-validator monitor: Submit result vs an independent validator on mutated plans; raw-store and stored-plan inspection",
          "Valid PRNG plans with 0-3 structural mutations (blank names, dropped children, pre-set engine fields, duplicate/v4 keys, timeout boundary values, unknown plugin, wrong request type, nil entries, nil plan): Submit accepts iff an independent validator written from the statement accepts, never panics, rejects leave the raw store unchanged, accepted plans get fresh distinct v7 ids, pristine state, submit time and the submitted definition; Start refuses check actions with non-check plugins.",
          "Trusted base: the independent validator follows the property statement; values on which the statement is silent are not generated.", "DESIGN.md §C16"),
})

CHECKS.update({
 "C11": c("exploration", "runtime monitor: store contents before/after coercion.New + per-plan write/invocation counts from a recording vault and scripted plugins",
          "Stores mixing never-started, Completed, Failed, fresh Running (reachable write-prefix states) and stale Running plans (all state times shifted past the maximum through the vault's own calls) under WithMaxLastUpdate(1 min / default / 2 h) and WithNoRecovery: untouched plans must be byte-for-byte unchanged with zero writes and invocations, fresh Running plans must reach a terminal state, stale ones must be Failed/ExceedRecovery with nothing Running and no invocation.",
          CRASH_NOTE + " Ages are one minute away from the maximum; equality is not explored.", "DESIGN.md §C11"),
})

CHECKS.update({
 "C19": c("exploration", "runtime reference-enumerator monitor: walk.Plan yields compared by pointer identity, order and ancestor chains with an independent recursive enumeration; every early-stop position",
          "Quick samples, thorough enumerates completely, a box of 8.4M plan shapes (group subsets x nil/empty/1/2 blocks, sequences, actions) plus random larger shapes; chains are copied at yield time and the yielded slices are re-read after the walk (aliasing), and the consumer stops after every possible number of items.",
          "Trusted base: the independent enumerator follows the property statement; shapes with nil entries inside slices are not generated (statement silent).", "DESIGN.md §C19"),
 "C20": c("exploration", "runtime reference-interpreter monitor: every builder call applied to the real builder and to a reference interpreter, compared after each call",
          "PRNG call histories over New/Reset/AddChecks/AddBlock/AddSequence/AddAction/Up/Plan/Err with valid and invalid arguments: no panic, Err()==nil iff the interpreter has no error, the first error is sticky until Reset, nothing changes while an error is pending, an emitted plan is deep-equal to the directly constructed hierarchy, second Plan() fails.",
          "Trusted base: the reference interpreter follows the property statement; inputs on which the statement is silent are not generated.", "DESIGN.md §C20"),
})

CHECKS.update({
 "C17": c("exploration", "runtime canary monitor: request/response types generated with reflect.StructOf from a type grammar, secure-tagged leaves hold unique canaries searched for in every clone (JSON) and every rendered report file",
          "Run-time generated types (structs, pointers, slices, maps, interfaces to depth 5, plus hand-written named/embedded/multi-pointer types) placed as Req of sequence and check actions and as Resp of attempts; no canary may appear in clone.Plan/Block/Sequence/Checks/Action output (default and WithKeepState) nor in any file reports.Render produces, every PLAIN marker must survive, the original must be unchanged by clone.*, nothing may panic; Register must refuse untagged secret-looking field names reachable through structs and pointers.",
          "Trusted base: canary search over JSON/HTML bytes; arrays and unexported fields are not generated (documented exceptions); placements below slices/maps/interfaces for the registry clause are counted as information only.", "DESIGN.md §C17"),
 "C18": c("exploration", "runtime monitor: definition equality, reachable-address disjointness by reflection, mutate-one-observe-other, Submit of the clone",
          "Plans in four states (fresh, stored, executed-looking with attempts, running snapshots) cloned through all five entry points under all keep-state/keep-secrets combinations: definition equal field by field, no pointer/slice/map address shared between clone and original (incl. Req/Resp/Attempts/State/Meta), default clones stripped of all engine state and accepted by Submit, keep-state clones carry ids/status/times/reason/attempts.",
          "Trusted base: store.Canon/Diff comparator; the user-supplied Key is not in the statement's list of definition fields and is only counted.", "DESIGN.md §C18"),
})
BUILT = set(CHECKS)
NOT_APPLICABLE = {f"C{i:02d}": "check under construction in this round (runtime monitor designed in DESIGN.md, not yet registered)" for i in range(1, 21) if f"C{i:02d}" not in BUILT}
