# Table behind MANIFEST.json (see mkmanifest.py). Properties move from NOT_APPLICABLE to CHECKS as their
# checks are built and silent on the unchanged tree.
CHECKS = {}
NOT_APPLICABLE = {f"C{i:02d}": "check under construction in this round (runtime monitor designed in DESIGN.md, not yet registered)" for i in range(1, 21)}
