#!/usr/bin/env python3
"""kf.py fixed <prop> <signature> <commit-subject-substring> <what failed>
   kf.py known <prop> <signature> <what fails>
Appends a line to known_findings.jsonl (a maintenance tool; checks never write that file)."""
import json, subprocess, sys, os
ROOT = os.path.dirname(os.path.abspath(__file__))
def sha(sub):
    log = subprocess.run(["git", "-C", "/repo", "log", "--format=%h %s"], capture_output=True, text=True).stdout.splitlines()
    for l in log:
        if sub in l:
            return l.split()[0]
    raise SystemExit("no commit matching " + sub)
kind = sys.argv[1]
if kind == "fixed":
    _, _, prop, sig, sub, what = sys.argv
    c = sha(sub)
    row = {"property": prop, "signature": sig, "status": "fixed", "commit": c, "what": f"fixed: property={prop} {c} {what}"}
else:
    _, _, prop, sig, what = sys.argv
    row = {"property": prop, "signature": sig, "status": "known", "what": what}
with open(os.path.join(ROOT, "known_findings.jsonl"), "a") as f:
    f.write(json.dumps(row) + "\n")
print(row)
